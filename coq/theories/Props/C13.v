(** C13 - Names resolve by the documented bare/qualified/extended rules in every scope.
    Statements only. [Names.Resolve] is compared with the implementation on generated programs
    (observation codes evaluated in Coq); the theorems state the documented rules for every name,
    every list of DEFtype statements and every declaration table. *)
From Coq Require Import List Arith Bool.
From RB Require Import Generated.Tables Lang.Ast Names.Resolve Names.ResolveProofs.
Import ListNotations.

Theorem C13_bare_is_single_by_default : forall n, compact_identity [] (n, None) = compact_identity [] (n, Some QSingle).
Proof. exact bare_is_single_by_default. Qed.

Theorem C13_five_suffixes_five_variables : forall d n q1 q2, q1 <> q2 ->
  id_eqb (compact_identity d (n, Some q1)) (compact_identity d (n, Some q2)) = false.
Proof. exact five_suffixes_five_variables. Qed.

Theorem C13_case_insensitive : forall d n m sfx, upper n = upper m ->
  compact_identity d (n, sfx) = compact_identity d (m, sfx).
Proof. exact case_insensitive. Qed.

Theorem C13_deftype_range_covers_both_ends : forall lo hi q c,
  default_of [(lo, hi, q)] c = if Nat.leb (up lo) (up c) && Nat.leb (up c) (up hi) then q else QSingle.
Proof. exact one_range. Qed.

Theorem C13_later_deftype_wins : forall d lo hi q c,
  Nat.leb (up lo) (up c) && Nat.leb (up c) (up hi) = true -> default_of (d ++ [(lo, hi, q)]) c = q.
Proof. exact later_range_wins. Qed.

Theorem C13_extended_declaration_owns_the_name : forall d e n t, ext_lookup e (upper n) = Some t ->
  resolve d e (n, None) = RVar (upper n, t) /\
  resolve d e (n, Some t) = RVar (upper n, t) /\
  forall q, q <> t -> resolve d e (n, Some q) = RRejected.
Proof. exact extended_owns_the_name. Qed.

Theorem C13_local_unless_declared_otherwise : forall d params locals shared consts s,
  existsb (id_eqb (compact_identity d s)) params = false ->
  existsb (id_eqb (compact_identity d s)) locals = false ->
  existsb (name_eqb (fst (compact_identity d s))) consts = false ->
  existsb (id_eqb (compact_identity d s)) shared = false ->
  home_of d params locals shared consts s = HLocal.
Proof. exact local_unless_declared_otherwise. Qed.

Theorem C13_shared_is_the_global : forall d params locals shared consts s,
  existsb (id_eqb (compact_identity d s)) params = false ->
  existsb (id_eqb (compact_identity d s)) locals = false ->
  existsb (name_eqb (fst (compact_identity d s))) consts = false ->
  existsb (id_eqb (compact_identity d s)) shared = true ->
  home_of d params locals shared consts s = HGlobal.
Proof. exact shared_is_global. Qed.

(** non-vacuity: under DEFINT A-C, "b" is B% and differs from B! *)
Example C13_example : relation [(65, 67, QInteger)] [] ([98], None) ([66], Some QInteger) = 0 /\
                      relation [(65, 67, QInteger)] [] ([98], None) ([66], Some QSingle) = 1.
Proof. vm_compute. split; reflexivity. Qed.

Print Assumptions C13_bare_is_single_by_default.
Print Assumptions C13_five_suffixes_five_variables.
Print Assumptions C13_case_insensitive.
Print Assumptions C13_deftype_range_covers_both_ends.
Print Assumptions C13_later_deftype_wins.
Print Assumptions C13_extended_declaration_owns_the_name.
Print Assumptions C13_local_unless_declared_otherwise.
Print Assumptions C13_shared_is_the_global.
