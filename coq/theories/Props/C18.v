(** C18 - Files read back what was written; handles follow the open/close protocol.
    Statements only. [RT.Files] models text files as line lists, RANDOM files as record maps and the
    table of open handles; operation sequences run on the implementation (programs in a scratch
    directory) are compared with [Files.frun] in Coq. The operating system's files are assumed to
    behave like the model's maps; console INPUT / LINE INPUT splitting and INPUT # field splitting
    are NOT modelled here (console LINE INPUT was repaired in commit 0cf70c5 and is covered by C16/C17
    style cases of the earlier round). *)
From Coq Require Import List Arith Bool.
From RB Require Import RT.Files RT.FilesProofs.
Import ListNotations.

Theorem C18_write_then_read_back : forall s name h lines,
  lookup (handles s) h = None ->
  let ops := [FOpen name h MOutput] ++ map (FPrint h) lines ++ [FClose h; FOpen name h MInput] ++
             map (fun _ => FLineInput h) lines ++ [FEof h; FLineInput h] in
  snd (frun s ops) = [ROk] ++ map (fun _ => ROk) lines ++ [ROk; ROk] ++ map RLine lines ++ [RBool true; RErr 62].
Proof. exact write_then_read_back. Qed.

Theorem C18_append_keeps_earlier_content : forall s name h old lines,
  lookup (handles s) h = None -> lookup (files s) name = Some old ->
  let '(s', _) := frun s ([FOpen name h MAppend] ++ map (FPrint h) lines) in
  lookup (files s') name = Some (old ++ lines).
Proof. exact append_keeps_earlier_content. Qed.

Theorem C18_put_then_get : forall s h name r d others,
  lookup (handles s) h = Some (mk_h name MRandom 0) -> Forall (fun o => fst o <> r) others ->
  snd (frun s ([FPut h r d] ++ map (fun o => FPut h (fst o) (snd o)) others ++ [FGet h r])) =
  [ROk] ++ map (fun _ => ROk) others ++ [RLine d].
Proof. exact put_then_get. Qed.

Theorem C18_open_on_busy_handle_is_error_55 : forall s name h m hs,
  lookup (handles s) h = Some hs -> fstep s (FOpen name h m) = (s, RErr 55).
Proof. exact open_on_busy_handle. Qed.

Theorem C18_open_missing_file_is_error_53 : forall s name h,
  lookup (handles s) h = None -> lookup (files s) name = None -> fstep s (FOpen name h MInput) = (s, RErr 53).
Proof. exact open_missing_for_input. Qed.

Theorem C18_closed_handle_is_an_error : forall s h, lookup (handles s) h = None ->
  (forall l, fstep s (FPrint h l) = (s, RErr 1000)) /\ fstep s (FLineInput h) = (s, RErr 1000) /\ fstep s (FEof h) = (s, RErr 1000).
Proof. exact closed_handle_is_an_error. Qed.

Theorem C18_wrong_mode_is_an_error : forall s h name pos,
  (lookup (handles s) h = Some (mk_h name MInput pos) -> forall l, fstep s (FPrint h l) = (s, RErr 1000)) /\
  (lookup (handles s) h = Some (mk_h name MOutput pos) -> fstep s (FLineInput h) = (s, RErr 1000)).
Proof. exact wrong_mode_is_an_error. Qed.

Theorem C18_close_frees_the_handle : forall s h, lookup (handles (fst (fstep s (FClose h)))) h = None.
Proof. exact close_frees_the_handle. Qed.

Theorem C18_close_all_frees_every_handle : forall s h, lookup (handles (fst (fstep s FCloseAll))) h = None.
Proof. exact close_all_frees_every_handle. Qed.

Example C18_example :
  snd (frun fs0 [FOpen 1 1 MOutput; FPrint 1 [104; 105]; FClose 1; FOpen 1 2 MInput; FEof 2; FLineInput 2; FEof 2; FOpen 2 2 MInput])
  = [ROk; ROk; ROk; ROk; RBool false; RLine [104; 105]; RBool true; RErr 55].
Proof. vm_compute. reflexivity. Qed.

Print Assumptions C18_write_then_read_back.
Print Assumptions C18_append_keeps_earlier_content.
Print Assumptions C18_put_then_get.
Print Assumptions C18_open_on_busy_handle_is_error_55.
Print Assumptions C18_open_missing_file_is_error_53.
Print Assumptions C18_closed_handle_is_an_error.
Print Assumptions C18_wrong_mode_is_an_error.
Print Assumptions C18_close_frees_the_handle.
Print Assumptions C18_close_all_frees_every_handle.
