(** C18 - Files read back what was written; handles follow the open/close protocol.
    Statements only. [RT.Files] models text files as line lists, RANDOM files as record maps and the
    table of open handles; operation sequences run on the implementation (programs in a scratch
    directory) are compared with [Files.frun] in Coq. The operating system's files are assumed to
    behave like the model's maps. The byte-level reader behind LINE INPUT and INPUT - one reader for a
    file and for the console - is [RT.ReadInput]; read sequences over byte streams (given to the
    implementation as a file and as the console's input) are compared with [ReadInput.rrun]. *)
From Coq Require Import List Arith Bool.
From RB Require Import RT.Files RT.FilesProofs RT.ReadInput RT.ReadInputProofs.
Import ListNotations.

Theorem C18_write_then_read_back : forall s name h lines,
  lookup (handles s) h = None ->
  let ops := [FOpen name h MOutput] ++ map (FPrint h) lines ++ [FClose h; FOpen name h MInput] ++
             map (fun _ => FLineInput h) lines ++ [FEof h; FLineInput h] in
  snd (frun s ops) = [ROk] ++ map (fun _ => ROk) lines ++ [ROk; ROk] ++ map RLine lines ++ [RBool true; RErr 62].
Proof. exact write_then_read_back. Qed.

Theorem C18_append_keeps_earlier_content : forall s name h old lines,
  lookup (handles s) h = None -> lookup (files s) name = Some old ->
  let '(s', _) := frun s ([FOpen name h MAppend] ++ map (FPrint h) lines) in
  lookup (files s') name = Some (old ++ lines).
Proof. exact append_keeps_earlier_content. Qed.

Theorem C18_put_then_get : forall s h name r d others,
  lookup (handles s) h = Some (mk_h name MRandom 0) -> Forall (fun o => fst o <> r) others ->
  snd (frun s ([FPut h r d] ++ map (fun o => FPut h (fst o) (snd o)) others ++ [FGet h r])) =
  [ROk] ++ map (fun _ => ROk) others ++ [RLine d].
Proof. exact put_then_get. Qed.

Theorem C18_open_on_busy_handle_is_error_55 : forall s name h m hs,
  lookup (handles s) h = Some hs -> fstep s (FOpen name h m) = (s, RErr 55).
Proof. exact open_on_busy_handle. Qed.

Theorem C18_open_missing_file_is_error_53 : forall s name h,
  lookup (handles s) h = None -> lookup (files s) name = None -> fstep s (FOpen name h MInput) = (s, RErr 53).
Proof. exact open_missing_for_input. Qed.

Theorem C18_closed_handle_is_an_error : forall s h, lookup (handles s) h = None ->
  (forall l, fstep s (FPrint h l) = (s, RErr 1000)) /\ fstep s (FLineInput h) = (s, RErr 1000) /\ fstep s (FEof h) = (s, RErr 1000).
Proof. exact closed_handle_is_an_error. Qed.

Theorem C18_wrong_mode_is_an_error : forall s h name pos,
  (lookup (handles s) h = Some (mk_h name MInput pos) -> forall l, fstep s (FPrint h l) = (s, RErr 1000)) /\
  (lookup (handles s) h = Some (mk_h name MOutput pos) -> fstep s (FLineInput h) = (s, RErr 1000)).
Proof. exact wrong_mode_is_an_error. Qed.

Theorem C18_close_frees_the_handle : forall s h, lookup (handles (fst (fstep s (FClose h)))) h = None.
Proof. exact close_frees_the_handle. Qed.

Theorem C18_close_all_frees_every_handle : forall s h, lookup (handles (fst (fstep s FCloseAll))) h = None.
Proof. exact close_all_frees_every_handle. Qed.

(** bytes: the lines written (each followed by CR LF) are the lines read, then the end is reached *)
Theorem C18_lines_written_are_lines_read : forall lines fuel, Forall nocrlf lines -> length lines <= fuel ->
  read_lines fuel (write_lines lines) = lines.
Proof. exact read_lines_write_lines. Qed.

Theorem C18_line_ends : forall l rest, nocrlf l ->
  line_input (l ++ 13 :: 10 :: rest) = Some (l, rest) /\ line_input (l ++ 10 :: rest) = Some (l, rest) /\
  (forall c, c <> 10 -> line_input (l ++ 13 :: c :: rest) = Some (l, c :: rest)) /\
  (l <> [] -> line_input l = Some (l, [])).
Proof.
  intros l rest H. split; [exact (line_input_crlf l rest H)|]. split; [exact (line_input_lf l rest H)|].
  split; [exact (fun c Hc => line_input_cr l c rest H Hc)|exact (line_input_unterminated l H)].
Qed.

(** a field is the text up to the next comma or line end, without the blanks around it; the separator
    is consumed and nothing else *)
Theorem C18_field_is_trimmed_text_up_to_separator : forall f c rest, nosep f -> is_sep c = true ->
  input (f ++ c :: rest) = Some (trim f, if c =? 13 then eat_lf rest else rest).
Proof. exact input_field. Qed.

Theorem C18_fields_written_are_fields_read : forall fs rest, Forall nosep fs -> Forall plain fs -> fs <> [] ->
  read_fields (length fs) (join_fields fs ++ 13 :: 10 :: rest) = (fs, rest).
Proof. exact fields_read_back. Qed.

Theorem C18_reading_at_the_end_is_error_62 : forall ops,
  rrun [] (OInput :: ops) = [RErr 62] /\ rrun [] (OLine :: ops) = [RErr 62] /\
  rrun [] (OEof :: ops) = RBool true :: rrun [] ops.
Proof. intros ops. repeat split. Qed.

Theorem C18_reads_never_look_behind : forall p bs a rest, read_until p bs = (a, rest) -> exists pre, bs = pre ++ rest.
Proof. exact read_until_suffix. Qed.

Example C18_example_bytes :
  rrun [32; 97; 32; 44; 98; 13; 10; 99; 44; 100; 13; 120] [OInput; OEof; OInput; OLine; OEof; OLine; OEof; OLine]
  = [RLine [97]; RBool false; RLine [98]; RLine [99; 44; 100]; RBool false; RLine [120]; RBool true; RErr 62].
Proof. vm_compute. reflexivity. Qed.

Example C18_example :
  snd (frun fs0 [FOpen 1 1 MOutput; FPrint 1 [104; 105]; FClose 1; FOpen 1 2 MInput; FEof 2; FLineInput 2; FEof 2; FOpen 2 2 MInput])
  = [ROk; ROk; ROk; ROk; RBool false; RLine [104; 105]; RBool true; RErr 55].
Proof. vm_compute. reflexivity. Qed.

Print Assumptions C18_write_then_read_back.
Print Assumptions C18_append_keeps_earlier_content.
Print Assumptions C18_put_then_get.
Print Assumptions C18_open_on_busy_handle_is_error_55.
Print Assumptions C18_open_missing_file_is_error_53.
Print Assumptions C18_closed_handle_is_an_error.
Print Assumptions C18_wrong_mode_is_an_error.
Print Assumptions C18_close_frees_the_handle.
Print Assumptions C18_close_all_frees_every_handle.
Print Assumptions C18_lines_written_are_lines_read.
Print Assumptions C18_line_ends.
Print Assumptions C18_field_is_trimmed_text_up_to_separator.
Print Assumptions C18_fields_written_are_fields_read.
Print Assumptions C18_reading_at_the_end_is_error_62.
Print Assumptions C18_reads_never_look_behind.
