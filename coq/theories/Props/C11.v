(** C11 - Every diagnostic names the right place in the source. Statements only.

    [Lex.RowCol] models the one place where a row and a column come from: the table the parser's input
    layer builds in one pass (CRLF counted once) and the rule for the end of the text. Every later
    stage only copies these positions (parser [with_pos], checker rebuilding [Positioned] nodes,
    generator tagging instructions, VM wrapping errors, stack trace of call sites) - that copying is
    NOT modelled; it is what the fault-injection cases observe end to end, and each reported
    (row, col) is checked in Coq against [position_at] on the actual text. *)
From Coq Require Import List Arith Bool.
From RB Require Import Lex.RowCol Lex.RowColProofs.
Import ListNotations.

(** one position per character *)
Theorem C11_one_position_per_character : forall chars r c, length (rowcol_from chars r c) = length chars.
Proof. exact rowcol_from_length. Qed.

(** rows and columns are counted from 1 *)
Theorem C11_counted_from_one : forall chars p, In p (rowcol chars) -> 1 <= fst p /\ 1 <= snd p.
Proof. intros chars p H. apply (rowcol_from_ge1 chars 1 1 p); auto. Qed.

(** positions never go backwards along the text *)
Theorem C11_positions_never_go_backwards : forall chars r c p, In p (rowcol_from chars r c) -> le_pos (r, c) p.
Proof. exact rowcol_from_lower_bound. Qed.

(** character j of line k is at row k+1, column j+1 as the user sees it - under LF, CR and CRLF alike *)
Theorem C11_position_independent_of_line_endings : forall sep lines r k j l,
  is_sep sep -> (forall x, In x lines -> plain_line x = true /\ x <> []) ->
  nth_error lines k = Some l -> j < length l ->
  nth_error (rowcol_from (join sep lines) r 1) (offset sep lines k j) = Some (r + k, S j).
Proof. exact position_independent_of_line_endings. Qed.

(** the position of a reader index is a character's position or the column right after the last one *)
Theorem C11_position_inside_or_at_end : forall chars idx,
  (idx < length chars /\ nth_error (rowcol chars) idx = Some (position_at chars idx)) \/
  (length chars <= idx /\
   match rev (rowcol chars) with
   | [] => chars = [] /\ position_at chars idx = (1, 1)
   | (r, c) :: _ => position_at chars idx = (r, S c)
   end).
Proof. exact position_at_inside_or_at_end. Qed.

(** non-vacuity: "ab<CR><LF>cd" - the d is at row 2, column 2; the end of the text at row 2, column 3 *)
Example C11_example : position_at [97; 98; 13; 10; 99; 100] 5 = (2, 2) /\ position_at [97; 98; 13; 10; 99; 100] 6 = (2, 3).
Proof. vm_compute. split; reflexivity. Qed.

Print Assumptions C11_one_position_per_character.
Print Assumptions C11_counted_from_one.
Print Assumptions C11_positions_never_go_backwards.
Print Assumptions C11_position_independent_of_line_endings.
Print Assumptions C11_position_inside_or_at_end.
