(** C19 - Bit-level primitives agree with two's complement and IEEE-754.
    Statements only; every proof is [exact lemma]. *)
From Coq Require Import List ZArith.
From Flocq Require Import IEEE754.Binary IEEE754.Bits.
From RB Require Import Val.Bits Val.BitsProofs Val.F64Codec.
Import ListNotations.
Open Scope Z_scope.

(** AND, OR, NOT on INTEGERs are the bitwise operations on the 16-bit two's-complement words,
    and the result is again an INTEGER. *)
Theorem C19_and : forall a b, in_int a -> in_int b ->
  in_int (qb_and a b) /\ to_word (qb_and a b) = Z.land (to_word a) (to_word b).
Proof. exact qb_and_is_word_and. Qed.

Theorem C19_or : forall a b, in_int a -> in_int b ->
  in_int (qb_or a b) /\ to_word (qb_or a b) = Z.lor (to_word a) (to_word b).
Proof. exact qb_or_is_word_or. Qed.

Theorem C19_not : forall a, in_int a ->
  in_int (qb_not a) /\ to_word (qb_not a) = 65535 - to_word a.
Proof. exact qb_not_is_word_not. Qed.

(** The bit vector of an INTEGER is its 16-bit word, msb first, and reading it back is the identity. *)
Theorem C19_bitvec : forall a, in_int a ->
  from_i32 a = word_bits 16 (to_word a) /\ bits_to_int (from_i32 a) = a.
Proof.
  intros a H. split; [|exact (bits_to_i32_from_i32 a H)].
  rewrite from_i32_spec. symmetry. exact (word_bits_mod 16 a).
Qed.

(** The two bytes of an INTEGER are its word, low byte first; both conversions are inverse. *)
Theorem C19_bytes_are_word : forall i, in_int i ->
  i32_to_bytes i = [to_word i mod 256; to_word i / 256].
Proof. intros i _. exact (i32_to_bytes_spec i). Qed.

Theorem C19_int_bytes_int : forall i, in_int i -> bytes_to_i32 (i32_to_bytes i) = i.
Proof. exact i32_bytes_roundtrip. Qed.

Theorem C19_bytes_int_bytes : forall lo hi, in_byte lo -> in_byte hi ->
  i32_to_bytes (bytes_to_i32 [lo; hi]) = [lo; hi] /\ in_int (bytes_to_i32 [lo; hi]).
Proof. exact bytes_i32_roundtrip. Qed.

(** PEEK reads those two bytes; POKE replaces exactly one of them. *)
Theorem C19_peek : forall i, in_int i ->
  peek_byte i 0 = Some (to_word i mod 256) /\ peek_byte i 1 = Some (to_word i / 256).
Proof. exact peek_bytes_are_word. Qed.

Theorem C19_poke_peek : forall i k v, in_int i -> in_byte v -> (k < 2)%nat ->
  exists i', poke_byte i k v = Some i' /\ in_int i' /\
    peek_byte i' k = Some v /\
    (forall k', (k' < 2)%nat -> k' <> k -> peek_byte i' k' = peek_byte i k').
Proof. exact poke_peek. Qed.

(** MKD$ yields the eight bytes of the IEEE-754 binary64 encoding, least significant first;
    CVD is its exact inverse (for every double, finite or not). *)
Theorem C19_mkd_is_ieee : forall x : binary64, mkd x = le_bytes 8 (bits_of_b64 x).
Proof. exact mkd_is_ieee_le. Qed.

Theorem C19_cvd_mkd : forall x : binary64, cvd (mkd x) = x.
Proof. exact cvd_mkd. Qed.

Theorem C19_mkd_cvd : forall bs, length bs = 8%nat -> Forall in_byte bs -> mkd (cvd bs) = bs.
Proof. exact mkd_cvd. Qed.

(** Non-vacuity: concrete instances *)
Example C19_ex_and : qb_and 5 (-2) = 4 /\ qb_or (-32768) 32767 = -1 /\ qb_not 0 = -1.
Proof. vm_compute. repeat split. Qed.
Example C19_ex_bytes : i32_to_bytes (-2) = [254; 255] /\ bytes_to_i32 [0; 128] = -32768.
Proof. vm_compute. split; reflexivity. Qed.
Example C19_ex_mkd : f64_word_to_bytes 4611686018427387904 = [0;0;0;0;0;0;0;64].
Proof. vm_compute. reflexivity. Qed.

Print Assumptions C19_and.
Print Assumptions C19_or.
Print Assumptions C19_not.
Print Assumptions C19_bitvec.
Print Assumptions C19_bytes_are_word.
Print Assumptions C19_int_bytes_int.
Print Assumptions C19_bytes_int_bytes.
Print Assumptions C19_peek.
Print Assumptions C19_poke_peek.
Print Assumptions C19_mkd_is_ieee.
Print Assumptions C19_cvd_mkd.
Print Assumptions C19_mkd_cvd.
