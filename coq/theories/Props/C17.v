(** C17 - String functions satisfy their defining equations. Statements only. *)
From Coq Require Import List ZArith Bool Arith.
From RB Require Import RT.Strings RT.StringsProofs.
Import ListNotations.
Open Scope Z_scope.

(** LEFT$(s,n) + MID$(s,n+1) = s *)
Theorem C17_left_mid_concat : forall s n a b, 0 <= n ->
  left_fn s n = SOk a -> mid_fn s (n + 1) None = SOk b -> a ++ b = s.
Proof. exact left_mid_concat. Qed.

(** LEFT$ / RIGHT$ return exactly the prefix / suffix, counts clamped to the length *)
Theorem C17_left_is_prefix : forall s n r, left_fn s n = SOk r ->
  0 <= n /\ exists rest, s = r ++ rest /\ length r = Nat.min (Z.to_nat n) (length s).
Proof. exact left_is_prefix. Qed.

Theorem C17_right_is_suffix : forall s n r, right_fn s n = SOk r ->
  0 <= n /\ exists pre, s = pre ++ r /\ length r = Nat.min (Z.to_nat n) (length s).
Proof. exact right_is_suffix. Qed.

(** MID$(s, start, len) is the substring of at most len characters from position start *)
Theorem C17_mid_is_substring : forall s st l, 0 < st -> 0 <= l ->
  mid_fn s st (Some l) = SOk (firstn (Z.to_nat l) (skipn (Z.to_nat st - 1) s)).
Proof. exact mid_is_substring. Qed.

(** INSTR(n,s,t), t non-empty: the least position >= n where t occurs in s, else 0 *)
Theorem C17_instr_least : forall n s t r, t <> [] -> instr_fn n s t = SOk r ->
  0 < n /\
  (r = 0 -> forall p, (Z.to_nat n <= p)%nat -> ~ occurs_at s t (p - 1)) /\
  (0 < r -> n <= r /\ occurs_at s t (Z.to_nat r - 1) /\
            forall p, n <= p < r -> ~ occurs_at s t (Z.to_nat p - 1)).
Proof. exact instr_least. Qed.

(** LEN(a+b) = LEN(a) + LEN(b) *)
Theorem C17_len_app : forall a b, len_fn (a ++ b) = len_fn a + len_fn b.
Proof. exact len_app. Qed.

(** UCASE$ / LCASE$ change only letters *)
Theorem C17_ucase_only_letters : forall s,
  length (ucase s) = length s /\
  forall i c, nth_error s i = Some c ->
    nth_error (ucase s) i = Some (if (97 <=? c) && (c <=? 122) then c - 32 else c).
Proof. exact ucase_only_letters. Qed.

Theorem C17_lcase_only_letters : forall s,
  length (lcase s) = length s /\
  forall i c, nth_error s i = Some c ->
    nth_error (lcase s) i = Some (if (65 <=? c) && (c <=? 90) then c + 32 else c).
Proof. exact lcase_only_letters. Qed.

(** LTRIM$ / RTRIM$ remove exactly the leading / trailing blanks *)
Theorem C17_ltrim_exact : forall s,
  exists k, s = repeat 32 k ++ ltrim s /\ (forall c t, ltrim s = c :: t -> c <> 32).
Proof. exact ltrim_exact. Qed.

Theorem C17_rtrim_exact : forall s,
  exists k, s = rtrim s ++ repeat 32 k /\ (forall c t, rev (rtrim s) = c :: t -> c <> 32).
Proof. exact rtrim_exact. Qed.

(** SPACE$(n) = STRING$(n, 32) and has n characters *)
Theorem C17_space_is_string32 : forall n, space_fn n = string_fn n 32 /\
  (0 <= n -> exists r, space_fn n = SOk r /\ Z.of_nat (length r) = n).
Proof. exact space_is_string32. Qed.

(** VAL(STR$(k)) = k for every whole number k of the LONG range (VAL returns a DOUBLE, which holds k exactly) *)
Theorem C17_val_str_roundtrip : forall k, in_long k -> val_fn (str_fn k) = Some (TDouble, k).
Proof. exact val_str_roundtrip. Qed.

(** Negative counts and non-positive start positions raise Illegal function call - and nothing else does *)
Theorem C17_counts_illegal : forall s n st l,
  (left_fn s n = SIllegal <-> n < 0) /\ (right_fn s n = SIllegal <-> n < 0) /\
  (mid_fn s st None = SIllegal <-> st <= 0) /\
  (mid_fn s st (Some l) = SIllegal <-> st <= 0 \/ l < 0) /\
  (space_fn n = SIllegal <-> n < 0) /\
  (forall hay needle, instr_fn st hay needle = SIllegal <-> st <= 0).
Proof. exact counts_illegal. Qed.

Example C17_ex : left_fn [97;66;32] 2 = SOk [97;66] /\ mid_fn [97;66;32] 3 None = SOk [32]
  /\ instr_fn 2 [97;66;97;66] [97;66] = SOk 3 /\ val_fn (str_fn (-32769)) = Some (TDouble, -32769).
Proof. vm_compute. repeat split. Qed.

Print Assumptions C17_left_mid_concat.
Print Assumptions C17_left_is_prefix.
Print Assumptions C17_right_is_suffix.
Print Assumptions C17_mid_is_substring.
Print Assumptions C17_instr_least.
Print Assumptions C17_len_app.
Print Assumptions C17_ucase_only_letters.
Print Assumptions C17_lcase_only_letters.
Print Assumptions C17_ltrim_exact.
Print Assumptions C17_rtrim_exact.
Print Assumptions C17_space_is_string32.
Print Assumptions C17_val_str_roundtrip.
Print Assumptions C17_counts_illegal.
