(** C07 - Parsing and checking any text ends with a program or a located error. Statements only.

    What theorems can carry here: (1) wherever the reader stands - inside the text or at its end - the
    position it reports is the position of a character of the text or the column right after the last
    one, with rows and columns from 1 ([Lex.RowCol], the model of the input layer that every
    diagnostic's position comes from); (2) in the combinator model of the parser library ([PC.Model],
    property C20) a parser never moves the reader backwards, so positions handed to diagnostics are
    positions of the text. That the real parser and checker terminate without panic on every input is
    NOT a theorem: it is searched (random bytes, token soups, statement shapes, mutations, every
    prefix of valid programs, deep nesting in a child process), and every error position found is
    checked in Coq against [position_in_text] on the actual text. *)
From Coq Require Import List Arith Bool Lia.
From RB Require Import Lex.RowCol Lex.RowColProofs PC.Model PC.Proofs.
Import ListNotations.

Theorem C07_reported_position_is_in_the_text_or_at_its_end : forall chars idx,
  (idx < length chars /\ nth_error (rowcol chars) idx = Some (position_at chars idx)) \/
  (length chars <= idx /\
   match rev (rowcol chars) with
   | [] => chars = [] /\ position_at chars idx = (1, 1)
   | (r, c) :: _ => position_at chars idx = (r, S c)
   end).
Proof. exact position_at_inside_or_at_end. Qed.

Theorem C07_rows_and_columns_from_one : forall chars p, In p (rowcol chars) -> 1 <= fst p /\ 1 <= snd p.
Proof. intros chars p H. apply (rowcol_from_ge1 chars 1 1 p); auto. Qed.

Theorem C07_table_covers_every_character : forall chars r c, length (rowcol_from chars r c) = length chars.
Proof. exact rowcol_from_length. Qed.

(** in the combinator model no parser moves the reader backwards *)
Theorem C07_parsers_never_move_backwards : forall n p s i o, run n p s i = Done o -> i <= o_pos o.
Proof. exact pos_monotone. Qed.

(** the decision procedure used on every case means membership in the text's positions *)
Theorem C07_position_in_text_spec : forall chars p, position_in_text chars p = true ->
  exists idx, idx <= length chars /\ position_at chars idx = p.
Proof.
  intros chars p H. unfold position_in_text, position_in_range in H. apply existsb_exists in H.
  destruct H as (idx & Hin & He). apply in_seq in Hin. exists idx. split; [lia|].
  unfold pos_eqb in He. apply andb_true_iff in He. destruct He as [H1 H2].
  apply Nat.eqb_eq in H1. apply Nat.eqb_eq in H2. destruct (position_at chars idx), p; cbn in *; subst; reflexivity.
Qed.

Example C07_example : position_in_text [80; 82; 73; 78; 84; 32; 41] (1, 7) = true.
Proof. vm_compute. reflexivity. Qed.

Print Assumptions C07_reported_position_is_in_the_text_or_at_its_end.
Print Assumptions C07_rows_and_columns_from_one.
Print Assumptions C07_table_covers_every_character.
Print Assumptions C07_parsers_never_move_backwards.
Print Assumptions C07_position_in_text_spec.
