(** C02 - Loops and branches mean the same wherever they are nested or however written.
    Statements only.

    The property compares the implementation with itself (original program vs rewritten program);
    that comparison is made by the harness on every generated program x site x rule. What Coq adds:
    the rewrite rules below are THEOREMS of the reference semantics [Lang.Sem] - for every state,
    every fuel, every enclosing context (the statements are compared as functions of the state, so
    they can be exchanged anywhere) - and every rewritten program is also checked against [Sem]
    ([Corr.check_sem] evaluated in Coq), which ties the implementation to the semantics the
    theorems speak about.

    Proved: WHILE = DO WHILE; DO ... UNTIL c = DO ... WHILE NOT c for every comparison c (both
    positions of the test); FOR without STEP = STEP 1 for INTEGER counters; a block wrapped in
    IF -1 THEN ... END IF.  Not proved (decided by the implementation-vs-implementation runs and
    the per-program check against [Sem] only): FOR as WHILE (needs temporaries), SELECT CASE as an
    IF chain, FOR ... STEP 1 for non-INTEGER counters; the single-line IF is the same syntax tree
    as the block IF in the model.

    "Regardless of what encloses it or what it encloses", on the code that is executed:
    [C02_enclosing_code_is_irrelevant] - the validated code of a statement, standing at any address
    of any instruction list, under any registers, any stack of register frames (so inside any number
    of FOR bodies), any value stack (inside any SELECT CASE) and any variable-path stack, does what
    the statement alone does; [C02_enclosed_blocks_compose] - the same for the blocks it encloses.
    The validator is evaluated on the real instruction list of every generated program (C01). *)
From Coq Require Import List ZArith Bool Floats.SpecFloat.
From RB Require Import Generated.Tables Val.Variant Val.Arith2 Lang.Ast Lang.Sem Lang.Rewrites RT.Printer
                       VM.Instr VM.Machine VM.GenProofs VM.Loops VM.Validate VM.ValidateProofs.
Import ListNotations.

Section AnyNumberText.
Variable num_text : variant -> list Z.
Variable is_negative : variant -> bool.
Notation exec := (Sem.exec num_text is_negative).

Theorem C02_while_as_do_while : forall f p c body st,
  exec f (SWhile p c body) st = exec f (SDo p true false c body) st.
Proof. exact (while_as_do_while num_text is_negative). Qed.

Theorem C02_do_until_as_do_while_not : forall f p top c body st,
  not_never_fails c ->
  exec f (SDo p top true c body) st = exec f (SDo p top false (EUn p UNot c) body) st.
Proof. exact (do_until_as_do_while_not num_text is_negative). Qed.

Theorem C02_comparisons_qualify : forall p o l r, is_relational o = true -> not_never_fails (EBin p o l r).
Proof. exact comparison_not_ok. Qed.

Theorem C02_for_default_step_is_one : forall f p v lo hi q body st,
  snd v = QInteger ->
  exec f (SFor p v lo hi None body) st = exec f (SFor p v lo hi (Some (ELit q (VInteger 1))) body) st.
Proof. exact (for_default_step_is_one num_text is_negative). Qed.

Theorem C02_block_in_if_true : forall f p q body st,
  exec (S f) (SIf p (ELit q (VInteger (-1))) body [] None) st = block num_text is_negative f body st.
Proof. exact (if_true_wrap num_text is_negative). Qed.
(** a statement's code behaves the same wherever it stands and whatever surrounds it at run time *)
Theorem C02_enclosing_code_is_irrelevant : forall k code pc s len, check_stmt k code pc s = Some len ->
  forall f st r t vs ps,
    match exec f s st with
    | Done st' => exists n r', GenProofs.stepn num_text is_negative n code (boundary pc r t vs ps st)
                   = MRunning (boundary (pc + len) r' t vs ps st')
    | Failed x q st' => exists n s', GenProofs.stepn num_text is_negative n code (boundary pc r t vs ps st) = MError x q s' /\ of_mio (mscreen s') = screen st'
    | StepZero q st' => exists n s', GenProofs.stepn num_text is_negative n code (boundary pc r t vs ps st) = MStepZero q s' /\ of_mio (mscreen s') = screen st'
    | OutOfFuel => True
    end.
Proof. intros k code pc s len H f. exact (check_stmt_sound num_text is_negative k code pc s len H f). Qed.

(** and so do the blocks it encloses *)
Theorem C02_enclosed_blocks_compose : forall k code l pc n, Validate.check_block k code l pc = Some n ->
  forall f, Loops.simulates num_text is_negative code pc n (Loops.blockf num_text is_negative f l).
Proof. exact (check_block_sound num_text is_negative). Qed.
End AnyNumberText.

(** non-vacuity: a comparison qualifies *)
Example C02_example : not_never_fails (EBin (1, 3)%nat Less (EVar (1, 1)%nat ([65%Z], QInteger)) (ELit (1, 5)%nat (VInteger 3))).
Proof. apply comparison_not_ok. reflexivity. Qed.

Print Assumptions C02_while_as_do_while.
Print Assumptions C02_do_until_as_do_while_not.
Print Assumptions C02_comparisons_qualify.
Print Assumptions C02_for_default_step_is_one.
Print Assumptions C02_block_in_if_true.
Print Assumptions C02_enclosing_code_is_irrelevant.
Print Assumptions C02_enclosed_blocks_compose.
