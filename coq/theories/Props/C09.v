(** C09 - Letter case, spacing, comments and line endings never change a program's meaning.
    Statements only.

    [Lex.Layout.canon] maps a text to the representative of its layout class. The theorems show,
    for every text, that the layout transformations stay inside the class: any change of letter case
    outside string literals and comments, any of the three line-ending conventions, one blank or
    many, tab or blank, leading blanks, blank lines, a trailing comment. What is NOT a theorem is
    that the real parser, checker and VM depend on the class only: that is observed on generated,
    rejected and repository programs (same tree up to positions, same verdict, same behaviour), and
    every (original, transformed) pair of those runs is checked in Coq to lie in one class. The
    colon-versus-newline transformation is outside the model (it changes the statement structure of
    lines) and is decided by the runs only. *)
From Coq Require Import List Arith Bool.
From RB Require Import Lex.Layout Lex.LayoutProofs.
Import ListNotations.

Theorem C09_letter_case_does_not_matter : forall mask l, canon (recase mask l) = canon l.
Proof. exact letter_case_does_not_matter. Qed.

Theorem C09_line_endings_do_not_matter : forall sep l, is_sep sep -> canon (retarget sep l) = canon l.
Proof. exact line_endings_do_not_matter. Qed.

Theorem C09_one_blank_or_many : forall p c t, canon_go Code p c (SP :: SP :: t) = canon_go Code p c (SP :: t).
Proof. exact one_blank_or_many. Qed.

Theorem C09_tab_is_a_blank : forall p c t, canon_go Code p c (TAB :: t) = canon_go Code p c (SP :: t).
Proof. exact tab_is_a_blank. Qed.

Theorem C09_leading_blanks_vanish : forall t, canon (SP :: t) = canon t.
Proof. exact leading_blanks_vanish. Qed.

Theorem C09_blank_line_vanishes : forall t, canon (LF :: t) = canon t.
Proof. exact blank_line_vanishes. Qed.

Theorem C09_trailing_comment_vanishes : forall body p c t,
  forallb (fun x => negb (Nat.eqb x CR) && negb (Nat.eqb x LF)) body = true ->
  canon_go Code p c (APOS :: body ++ LF :: t) = canon_go Code p c (LF :: t).
Proof. exact trailing_comment_vanishes. Qed.

(** non-vacuity:  pRiNt<TAB><TAB>"a b"  'x <CR><LF>   and   PRINT "a b"<LF>   are one class; inside the string nothing is touched *)
Example C09_example :
  same_layout_class [112; 82; 105; 78; 116; 9; 9; 34; 97; 32; 98; 34; 32; 32; 39; 120; 32; 13; 10]
                    [80; 82; 73; 78; 84; 32; 34; 97; 32; 98; 34; 10] = true /\
  same_layout_class [34; 97; 34] [34; 65; 34] = false.
Proof. vm_compute. split; reflexivity. Qed.

Print Assumptions C09_letter_case_does_not_matter.
Print Assumptions C09_line_endings_do_not_matter.
Print Assumptions C09_one_blank_or_many.
Print Assumptions C09_tab_is_a_blank.
Print Assumptions C09_leading_blanks_vanish.
Print Assumptions C09_blank_line_vanishes.
Print Assumptions C09_trailing_comment_vanishes.
