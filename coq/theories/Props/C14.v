(** C14 - A CONST has the value and type its expression would have at run time. Statements only.

    [Lang.Const.fold] models the checker's constant folder, [Lang.Sem.eval] is run-time evaluation
    (the reference semantics tied to the VM by C01), [inline] replaces each reference to an earlier
    constant by a literal of its folded value - which is what the checker does to every use.
    Type mismatch answers of the folder (AND / OR applied to a non-INTEGER constant, or a reference
    with the wrong suffix) are outside the property's statement and excluded here. *)
From Coq Require Import List ZArith Bool Floats.SpecFloat.
From RB Require Import Generated.Tables Val.Variant Val.Arith2 Lang.Ast Lang.Sem Lang.Const Lang.ConstProofs.
Import ListNotations.

(** an accepted constant expression has exactly the value (and therefore the type) that evaluating
    it at run time yields, in every state, and evaluation changes nothing *)
Theorem C14_accepted_value_is_runtime_value : forall env e v, fold env e = COk v ->
  exists e', inline env e = Some e' /\ forall st, eval e' st = EVal v st.
Proof. exact fold_value. Qed.

(** rejected for Overflow / Division by zero only when run-time evaluation raises that error *)
Theorem C14_rejection_is_runtime_error : forall env e x, fold env e = CErr x -> x <> ETypeMismatch ->
  forall e', inline env e = Some e' -> forall st, exists p, eval e' st = EErr x p.
Proof. exact fold_error. Qed.

(** ... and exactly then *)
Theorem C14_rejected_iff_runtime_error : forall env e e' x st, inline env e = Some e' -> x <> ETypeMismatch ->
  fold env e <> CErr ETypeMismatch ->
  (fold env e = CErr x <-> exists p, eval e' st = EErr x p).
Proof. exact rejected_iff. Qed.

(** non-vacuity: CONST K = (2 + 3) * 100000 is accepted with the LONG 500000; 32767 + 1 is rejected *)
Example C14_example_accept :
  fold [] (CBin Multiply (CParen (CBin Plus (CLit (VInteger 2)) (CLit (VInteger 3)))) (CLit (VLong 100000))) = COk (VLong 500000).
Proof. vm_compute. reflexivity. Qed.
Example C14_example_reject : fold [] (CBin Plus (CLit (VInteger 32767)) (CLit (VInteger 1))) = CErr EOverflow.
Proof. vm_compute. reflexivity. Qed.

Print Assumptions C14_accepted_value_is_runtime_value.
Print Assumptions C14_rejection_is_runtime_error.
Print Assumptions C14_rejected_iff_runtime_error.
