(** C15 - Generated code is well-formed: every branch lands where intended, stacks balance.
    Statements only.

    [WF.Verifier] abstracts an instruction list to control effect + pops/pushes on the VM's six
    stacks and defines an abstract machine that takes BOTH sides of every conditional branch and
    follows calls, GOSUBs and returns through frames. [wf_code] is evaluated in Coq on the
    abstraction of every program's real instruction list (correspondence cases); the theorems
    below say what a successful evaluation establishes for ALL executions of the abstract machine
    (any number of loop iterations, any branch choices, any call depth).

    Not covered by the theorems: transfers of control caused by run-time errors (ON ERROR GOTO /
    RESUME NEXT) - the abstract machine has no error edges; the handler body itself is checked as a
    frame of its own. The abstraction table (which instruction pops/pushes what) is validated
    against the running VM at every executed instruction by the harness, not proved. *)
From Coq Require Import List Arith Bool Sorted.
From RB Require Import WF.Verifier WF.VerifierProofs.
Import ListNotations.

(** One step from a state that agrees with a checked certificate: no stack underflows, no branch
    leaves the list, and the next state agrees with the certificate again. *)
Theorem C15_step_sound : forall code c, check_cert code c = true ->
  forall s ch, Inv c s ->
  match astep code s ch with
  | ANext s' => Inv c s'
  | ADone => True
  | AUnderflow | ABadTarget => False
  end.
Proof. exact step_sound. Qed.

(** Every execution from the program entry, whatever the branch choices and however long. *)
Theorem C15_all_executions : forall code c, check_cert code c = true ->
  forall choices,
  match arun code choices (mk_as 0 (vzero nstacks) []) with
  | ANext s' => Inv c s'
  | ADone => True
  | AUnderflow | ABadTarget => False
  end.
Proof. intros code c H choices. apply (run_sound code c H). apply (inv_initial code c H). Qed.

(** ... and from an error handler's entry, inside any well-formed frames. *)
Theorem C15_handler_executions : forall code c, check_cert code c = true ->
  forall t fs choices, cert_at c t = Some (vzero nstacks) ->
  Forall (fun f => cert_at c (fst f) = Some (snd f)) fs ->
  match arun code choices (mk_as t (vzero nstacks) fs) with
  | ANext s' => Inv c s'
  | ADone => True
  | AUnderflow | ABadTarget => False
  end.
Proof. intros code c H t fs choices H1 H2. apply (run_sound code c H). apply inv_entry; assumption. Qed.

(** Stacks do not grow with the iteration count: the depths of a frame at any reachable state are
    among the finitely many vectors the certificate lists (one per address). *)
Theorem C15_depth_is_static : forall code c, check_cert code c = true ->
  forall choices s', arun code choices (mk_as 0 (vzero nstacks) []) = ANext s' ->
  In (Some (adepth s')) c /\ Forall (fun f => In (Some (snd f)) c) (aframes s').
Proof. exact depth_is_static. Qed.

(** The list checks of [wf_code] mean what they say. *)
Theorem C15_labels_defined_once : forall l, nodupb l = true <-> NoDup l.
Proof. exact nodupb_spec. Qed.

Theorem C15_statement_addresses_ascending : forall l, ascending l = true <-> Sorted le l.
Proof. exact ascending_spec. Qed.

(** [wf_code = 0] includes the certificate check, so the theorems above apply to every program whose
    correspondence case evaluates to 0. *)
Theorem C15_wf_code_implies_check : forall code c marks regions labels,
  wf_code code c marks regions labels = 0 ->
  check_cert code c = true /\ nodupb labels = true /\ ascending marks = true.
Proof.
  intros code c marks regions labels. unfold wf_code.
  destruct (check_cert code c); cbn [negb]; [|discriminate].
  destruct (nodupb labels); cbn [negb]; [|discriminate].
  destruct (ascending marks); cbn [andb negb]; [|discriminate].
  intros _. repeat split.
Qed.

(** Non-vacuity: a loop whose body pushes and pops the value stack, with a call.
      0 PushA; 1 PopA; 2 JumpIfFalse 5; 3 Call 6 ret 4; 4 Jump 0; 5 Halt; 6 PushRegisters; 7 PopRegisters; 8 Ret *)
Definition ex_code : list ainstr :=
  let z := vzero nstacks in
  [mk_ai APlain z [1;0;0;0;0;0]; mk_ai APlain [1;0;0;0;0;0] z; mk_ai (AJumpIfFalse 5) z z;
   mk_ai (ACall 6 4) z z; mk_ai (AJump 0) z z; mk_ai (AStop 0) z z;
   mk_ai APlain z [0;1;0;0;0;0]; mk_ai APlain [0;1;0;0;0;0] z; mk_ai ARet z z].
Definition ex_cert : cert :=
  let z := vzero nstacks in
  [Some z; Some [1;0;0;0;0;0]; Some z; Some z; Some z; Some z; Some z; Some [0;1;0;0;0;0]; Some z].
Example C15_example : wf_code ex_code ex_cert [0; 2; 5] [(0, 6); (6, 9)] [] = 0.
Proof. vm_compute. reflexivity. Qed.

(** ... and a leak is rejected: the loop body pushes without popping *)
Example C15_example_leak_rejected :
  check_cert [mk_ai APlain (vzero nstacks) [1;0;0;0;0;0]; mk_ai (AJump 0) (vzero nstacks) (vzero nstacks)]
             [Some (vzero nstacks); Some [1;0;0;0;0;0]] = false.
Proof. vm_compute. reflexivity. Qed.

Print Assumptions C15_step_sound.
Print Assumptions C15_all_executions.
Print Assumptions C15_handler_executions.
Print Assumptions C15_depth_is_static.
Print Assumptions C15_labels_defined_once.
Print Assumptions C15_statement_addresses_ascending.
Print Assumptions C15_wf_code_implies_check.
