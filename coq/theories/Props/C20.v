(** C20 - Parser combinators honour their backtracking and error contract.
    Statements only; every proof is [exact lemma]. The model [PC.Model.run] mirrors the [parse]
    methods of rusty_pc; it is tied to the code by the correspondence check. *)
From Coq Require Import List Arith Bool.
From RB Require Import PC.Model PC.Proofs.
Import ListNotations.

(** A parse (successful or not) never moves the position backwards. *)
Theorem C20_position_never_backwards : forall n p s i o,
  run n p s i = Done o -> i <= o_pos o.
Proof. exact pos_monotone. Qed.

(** peek: success leaves the input where it started. *)
Theorem C20_peek_keeps_index : forall n p s i v j f,
  run n (PPeek p) s i = Done (mk_out (ROk v) j f) -> j = i.
Proof. exact peek_keeps_index. Qed.

(** A soft failure under sequence-with-undo, choice, filter, peek, optional, default, repetition,
    optional surround (and the other constructors of the closed class [restoring]; and_then and
    and_then_err are excluded, as their documentation says) leaves the input where it started. *)
Theorem C20_softfail_restores : forall n p s i o e,
  restoring p = true ->
  run n p s i = Done o -> o_res o = RErr e -> is_soft e = true -> o_pos o = i.
Proof. exact softfail_restores. Qed.

(** A fatal error is never swallowed or downgraded: if any sub-parse executed on the way returned a
    fatal error (instrumentation flag of the model), the result is a fatal error. *)
Theorem C20_fatal_never_swallowed : forall n p s i o,
  wf p = true -> run n p s i = Done o ->
  o_fatal_seen o = true -> exists e, o_res o = RErr e /\ is_fatal e = true.
Proof. exact fatal_propagates. Qed.

(** Repetition returns exactly the maximal run of successes: the collected values are those of a chain
    of successive successes, which ends at the first failure; a soft failure ends the list, a fatal one
    is propagated. *)
Theorem C20_many_maximal : forall n p allow s i o,
  run (S n) (PMany p allow) s i = Done o ->
  exists vs j e f,
    succ_chain (fun k => run n p s k) i vs j /\
    run n p s j = Done (mk_out (RErr e) (o_pos o) f) /\
    o_res o = (if is_soft e
               then (match vs with [] => if allow then ROk (VList []) else RErr e | _ => ROk (VList vs) end)
               else RErr e).
Proof. exact many_maximal. Qed.

(** Choice returns the result of the first alternative that does not fail softly (or of the last
    alternative), every alternative being tried from the original position. *)
Theorem C20_choice_first : forall n ps s i o,
  ps <> [] ->
  run (S n) (POr ps) s i = Done o ->
  exists k q f,
    nth_error ps k = Some q /\
    run n q s i = Done (mk_out (o_res o) (o_pos o) f) /\
    (forall k' q', k' < k -> nth_error ps k' = Some q' ->
       exists e j f', run n q' s i = Done (mk_out (RErr e) j f') /\ is_soft e = true) /\
    (S k = length ps \/ match o_res o with RErr e => is_soft e = false | ROk _ => True end).
Proof. intros n ps s i o Hne H. exact (or_first_success (fun q j => run n q s j) ps i false o Hne H). Qed.

(** Delimited lists reject a trailing delimiter fatally: after a delimiter (loop state 2), if neither an
    element nor a delimiter follows, the result is the given trailing error. *)
Theorem C20_delimited_trailing_fatal : forall n elt dl tr am acc i seen e1 j1 f1 e2 j2 f2,
  elt i = Done (mk_out (RErr e1) j1 f1) -> is_fatal e1 = false ->
  dl j1 = Done (mk_out (RErr e2) j2 f2) -> is_fatal e2 = false ->
  exists o, delim_loop (S n) elt dl tr am acc 2 i seen = Done o /\ o_res o = RErr tr /\ o_pos o = j2.
Proof. exact delimited_trailing_fatal. Qed.

(** Non-vacuity: concrete expressions meet the hypotheses and exercise the conclusions. *)
Definition ex_list := PDelimited (PFilter PRead (IsSym 0)) (PFilter PRead (IsSym 1)) (Fatal 11) false.
Example C20_ex_restoring : restoring (PAnd ex_list (PMany (PFilter PRead (IsSym 2)) false)) = true
                        /\ wf (POr [ex_list; PToOption ex_list]) = true.
Proof. split; reflexivity. Qed.
Example C20_ex_trailing : run 20 ex_list [0; 1; 0; 1] 0 = Done (mk_out (RErr (Fatal 11)) 4 true).
Proof. vm_compute. reflexivity. Qed.
Example C20_ex_list_ok : run 20 ex_list [0; 1; 0; 2] 0 = Done (mk_out (ROk (VList [VSym 0; VSym 0])) 3 false).
Proof. vm_compute. reflexivity. Qed.
Example C20_ex_and_undo : run 20 (PAnd PRead (PFilter PRead (IsSym 1))) [0; 2] 0 = Done (mk_out (RErr (Soft 0)) 0 false).
Proof. vm_compute. reflexivity. Qed.

Print Assumptions C20_position_never_backwards.
Print Assumptions C20_peek_keeps_index.
Print Assumptions C20_softfail_restores.
Print Assumptions C20_fatal_never_swallowed.
Print Assumptions C20_many_maximal.
Print Assumptions C20_choice_first.
Print Assumptions C20_delimited_trailing_fatal.
