(** C04 - Arrays, records and fixed-length strings change only where they are written.
    Statements only. The model (RT/ArrayVal.v) mirrors VArray, record values and fix_length. *)
From Coq Require Import List ZArith Bool.
From RB Require Import RT.ArrayVal RT.ArrayProofs.
Import ListNotations.
Open Scope Z_scope.

(** An access is in range exactly when every index lies inside its declared bounds
    (any rank, any lower bounds incl. negative)... *)
Theorem C04_subscript_exact : forall ds idx,
  (exists k, abs_index ds idx = Some k) <-> Forall2 in_bounds ds idx.
Proof. exact abs_index_ok_iff. Qed.

(** ... so for an array holding [array_len] elements, reads and stores succeed exactly then. *)
Theorem C04_store_ok_iff_in_bounds : forall (a : varray Z) idx v, va_ok a ->
  ((exists a', set_element a idx v = Some a' /\ va_ok a') <-> Forall2 in_bounds (va_dims a) idx).
Proof. exact (@set_element_ok Z). Qed.

Theorem C04_read_ok_iff_in_bounds : forall (a : varray Z) idx, va_ok a ->
  ((exists v, get_element a idx = Some v) <-> Forall2 in_bounds (va_dims a) idx).
Proof. exact (@get_element_ok Z). Qed.

(** Distinct index tuples denote distinct elements; together with the range and surjectivity the
    flat index is a bijection between the box of in-bounds tuples and [0, number of elements). *)
Theorem C04_distinct_tuples_distinct_elements : forall ds i1 i2 k,
  abs_index ds i1 = Some k -> abs_index ds i2 = Some k -> i1 = i2.
Proof. exact abs_index_injective. Qed.

Theorem C04_flat_index_in_range : forall ds idx k, abs_index ds idx = Some k -> 0 <= k < array_len ds.
Proof. exact abs_index_range. Qed.

Theorem C04_flat_index_onto : forall ds k, Forall (fun d => fst d <= snd d) ds -> 0 <= k < array_len ds ->
  exists idx, abs_index ds idx = Some k.
Proof. exact abs_index_surjective. Qed.

(** Storing into one element changes that element and nothing else. *)
Theorem C04_store_then_read_same : forall (a a' : varray Z) idx v,
  set_element a idx v = Some a' -> get_element a' idx = Some v /\ va_dims a' = va_dims a.
Proof. exact (@set_get_same Z). Qed.

Theorem C04_store_then_read_other : forall (a a' : varray Z) i j v,
  set_element a i v = Some a' -> j <> i -> get_element a' j = get_element a j.
Proof. exact (@set_get_other Z). Qed.

Theorem C04_new_array_holds_default : forall ds (d : Z) idx,
  Forall2 in_bounds ds idx -> get_element (va_new ds d) idx = Some d.
Proof. exact (@new_array_default Z). Qed.

(** LBOUND / UBOUND report the declared bounds, also after stores. *)
Theorem C04_bounds_report_declared : forall ds (d : Z) (k : nat) lb ub,
  nth_error ds k = Some (lb, ub) ->
  lbound (va_new ds d) (S k) = Some lb /\ ubound (va_new ds d) (S k) = Some ub.
Proof. exact (@bounds_report_declared Z). Qed.

Theorem C04_bounds_kept_by_stores : forall (a a' : varray Z) idx v dim,
  set_element a idx v = Some a' -> lbound a' dim = lbound a dim /\ ubound a' dim = ubound a dim.
Proof. exact (@bounds_kept_by_set Z). Qed.

(** A STRING * n value has exactly n characters: truncated or padded with spaces. *)
Theorem C04_fixed_string_length : forall s n, length (fix_length s n) = n.
Proof. exact fix_length_exact. Qed.

Theorem C04_fixed_string_truncates : forall s n, ~ In 0 s -> (n <= length s)%nat -> fix_length s n = firstn n s.
Proof. exact fix_length_truncates. Qed.

Theorem C04_fixed_string_pads : forall s n, ~ In 0 s -> (length s <= n)%nat ->
  fix_length s n = s ++ repeat 32 (n - length s).
Proof. exact fix_length_pads. Qed.

(** Record fields: a store changes the field (names compared case-insensitively) and nothing else. *)
Theorem C04_field_store_then_read_same : forall (r : record Z) k k' v old,
  field_get r k = Some old -> key_eqb k k' = true -> field_get (field_set r k v) k' = Some v.
Proof. exact (@field_set_get_same Z). Qed.

Theorem C04_field_store_then_read_other : forall (r : record Z) k k' v,
  key_eqb k k' = false -> field_get (field_set r k v) k' = field_get r k'.
Proof. exact (@field_set_get_other Z). Qed.

(** Non-vacuity *)
Example C04_ex_index : abs_index [(-1, 1); (1, 2); (0, 3)] [0; 1; 0] = Some 8
                    /\ abs_index [(-1, 1); (1, 2); (0, 3)] [-1; 1; 2] = Some 2
                    /\ abs_index [(-1, 1); (1, 2); (0, 3)] [2; 1; 0] = None.
Proof. vm_compute. repeat split. Qed.
Example C04_ex_ok : va_ok (va_new [(-1, 1); (1, 2)] 0) /\ Forall2 in_bounds [(-1, 1); (1, 2)] [0; 2].
Proof. split; [reflexivity|]. repeat constructor; cbn; discriminate. Qed.
Example C04_ex_fix : fix_length [65; 66; 67] 5 = [65; 66; 67; 32; 32] /\ fix_length [65; 66; 67] 2 = [65; 66].
Proof. vm_compute. split; reflexivity. Qed.

Print Assumptions C04_subscript_exact.
Print Assumptions C04_store_ok_iff_in_bounds.
Print Assumptions C04_read_ok_iff_in_bounds.
Print Assumptions C04_distinct_tuples_distinct_elements.
Print Assumptions C04_flat_index_in_range.
Print Assumptions C04_flat_index_onto.
Print Assumptions C04_store_then_read_same.
Print Assumptions C04_store_then_read_other.
Print Assumptions C04_new_array_holds_default.
Print Assumptions C04_bounds_report_declared.
Print Assumptions C04_bounds_kept_by_stores.
Print Assumptions C04_fixed_string_length.
Print Assumptions C04_fixed_string_truncates.
Print Assumptions C04_fixed_string_pads.
Print Assumptions C04_field_store_then_read_same.
Print Assumptions C04_field_store_then_read_other.
