(** C08 - A program the checker accepts always compiles and runs to a BASIC-level outcome.
    Statements only.

    What a theorem can carry here: for the instruction lists of the core fragment, the machine
    model [VM.Machine] (tied to the real VM by the C01 correspondence) never reaches one of its
    internal failure sites - value-stack, register-stack or var-path underflow, an unresolved label,
    running off the list - on ANY state reachable from the start, whatever values the registers and
    variables hold, provided [Safety.check_safe] answers 0 for the list. [check_safe] is evaluated in
    Coq on the real instruction list of every generated core program; it includes that the Coq
    abstraction of the list is the harness's abstraction and that the certificate checks (C15).
    Everything else the property covers - the whole built-in repertoire, every argument shape,
    arbitrary input bytes - is searched by the harness, not proved. *)
From Coq Require Import List ZArith Arith Bool Floats.SpecFloat.
From RB Require Import Generated.Tables Val.Variant Lang.Ast VM.Instr VM.Machine WF.Verifier VM.Safety.
Import ListNotations.
Local Open Scope nat_scope.

Theorem C08_step_never_fails_internally : forall num_text is_negative code c,
  check_cert (abstract_code code) c = true ->
  forallb (fun ip => supported (fst ip)) code = true ->
  forall s, Agree c s ->
  match Machine.step num_text is_negative code s with
  | MRunning s' => Agree c s'
  | MPanic _ _ => False
  | _ => True
  end.
Proof. exact step_safe. Qed.

Theorem C08_run_never_fails_internally : forall num_text is_negative code c,
  check_cert (abstract_code code) c = true ->
  forallb (fun ip => supported (fst ip)) code = true ->
  forall fuel,
  match Machine.run num_text is_negative fuel code m0 with MPanic _ _ => False | _ => True end.
Proof. exact program_never_fails_internally. Qed.

(** [check_safe = 0] is exactly the hypotheses of the two theorems *)
Theorem C08_check_safe_gives_the_hypotheses : forall code acode c, check_safe code acode c = 0 ->
  check_cert (abstract_code code) c = true /\ forallb (fun ip => supported (fst ip)) code = true.
Proof.
  intros code acode c. unfold check_safe.
  destruct (forallb (fun ip => supported (fst ip)) code); cbn [negb]; [|discriminate].
  destruct (acode_eqb (abstract_code code) acode); cbn [negb]; [|discriminate].
  destruct (check_cert (abstract_code code) c); cbn [negb]; [|discriminate]. intros _. split; reflexivity.
Qed.

(** non-vacuity: A% = 1 + 2 (load, push, load, copy, pop, add, store, halt) *)
Definition ex_code : list ipos :=
  let p := (1, 1) in
  [(ILoad (VInteger 1), p); (IPushA, p); (ILoad (VInteger 2), p); (ICopyAToB, p); (IPopA, p); (IBin Plus, p);
   (IVarPathName ([65%Z], QInteger), p); (ICopyAToVarPath, p); (IHalt, p)].
Example C08_example :
  check_safe ex_code (abstract_code ex_code)
    [Some z6; Some z6; Some dV; Some dV; Some dV; Some z6; Some z6; Some dP; Some z6] = 0.
Proof. vm_compute. reflexivity. Qed.

Print Assumptions C08_step_never_fails_internally.
Print Assumptions C08_run_never_fails_internally.
Print Assumptions C08_check_safe_gives_the_hypotheses.
