(** C16 - PRINT lays text out by the column rules, on screen, printer and files alike. Statements only. *)
From Coq Require Import List ZArith Bool Arith.
From RB Require Import RT.Printer RT.PrinterProofs RT.ArrayVal RT.Using RT.UsingProofs.
Import ListNotations.
Local Open Scope nat_scope.

(** Over every history of PRINT statements interleaved across devices, the tracked column of each
    device is the number of bytes written to it since its last CR LF. *)
Theorem C16_column_tracks_output : forall h ds, (forall d, Inv (ds d)) -> forall d, Inv (run_history h ds d).
Proof. exact column_tracks_output. Qed.

(** The column is tracked per device: statements for other devices change neither bytes nor column. *)
Theorem C16_devices_independent : forall h ds d, Forall (fun st => fst st <> d) h -> run_history h ds d = ds d.
Proof. exact devices_independent. Qed.

(** A comma pads with blanks to the next multiple of 14 columns. *)
Theorem C16_comma_next_zone : forall d,
  out (next_zone d) = out d ++ repeat 32%Z (14 - col d mod 14) /\
  col (next_zone d) = col d + (14 - col d mod 14) /\
  col (next_zone d) mod 14 = 0 /\
  col d < col (next_zone d) <= col d + 14.
Proof. exact comma_next_zone. Qed.

(** A semicolon adds nothing. *)
Theorem C16_semicolon_adds_nothing : forall d args skip,
  fst (print_args d (ASemi :: args) skip) = fst (print_args d args true).
Proof. exact semicolon_adds_nothing. Qed.

(** A number is written with a leading blank or minus sign and a trailing blank; a string verbatim. *)
Theorem C16_number_layout : forall d neg digits, nocrlf digits ->
  print d (item_text (INum neg digits)) =
  mk_dev (out d ++ (if neg then 45%Z else 32%Z) :: digits ++ [32%Z]) (col d + S (length digits + 1)).
Proof. exact number_layout. Qed.

Theorem C16_string_verbatim : forall d s, nocrlf s -> print d s = mk_dev (out d ++ s) (col d + length s).
Proof. exact string_verbatim. Qed.

(** A CR or LF inside a string ends the line (CR LF is written) and restarts the column. *)
Theorem C16_string_with_break : forall d a c b, nocrlf a -> is_cr_lf c = true ->
  print d (a ++ c :: b) = print (println (print_as_is d a)) b.
Proof. exact string_with_break. Qed.

(** The line ends with CR LF unless the statement ends in a separator; then the next PRINT to that
    device continues at the same column. *)
Theorem C16_line_end_rule : forall d args,
  print_stmt d args =
  let d' := fst (print_args d args false) in
  if ends_with_separator args then d' else println d'.
Proof. exact line_end_rule. Qed.

(** PRINT USING: literal text is copied, a string field has exactly the width of its picture, a numeric
    field is at least as wide as its picture (exactly as wide when the digits fit), the format is reused
    cyclically. *)
Theorem C16_using_literal_copied : forall fmt i k,
  i + k < length fmt ->
  (forall m, m < k -> is_fmt (nth (i + m) fmt 0%Z) = false) -> is_fmt (nth (i + k) fmt 0%Z) = true ->
  print_non_formatting fmt i = UOk (firstn k (skipn i fmt), i + k).
Proof. exact using_literal_copied. Qed.

Theorem C16_using_string_field_width : forall fmt i s txt j,
  string_field fmt i (UStr s) = UOk (txt, j) -> i < j /\ length txt = j - i.
Proof. exact using_string_field_width. Qed.

Theorem C16_using_numeric_width : forall ifmt digits r, fmt_integer_part ifmt digits = Some r ->
  length ifmt <= length r /\ (length digits <= count_hash ifmt -> length r = length ifmt).
Proof. exact using_numeric_width. Qed.

Theorem C16_using_cycles : forall fmt index v, fmt <> [] ->
  using_value fmt (index + length fmt) v = using_value fmt index v.
Proof. exact using_cycles. Qed.

(** Non-vacuity *)
Example C16_ex_zone : out (print_stmt dev0 [AItem (INum false [53%Z]); AComma; AItem (IStr [97%Z])]) =
  ([32; 53; 32] ++ repeat 32 11 ++ [97; 13; 10])%Z.
Proof. vm_compute. reflexivity. Qed.
Example C16_ex_inv : forall d, Inv (devs0 d).
Proof. intros d. reflexivity. Qed.
Example C16_ex_using : using_values [35;44;35;35;35]%Z 0 [UNum [49;50;51;52]%Z] [] = UOk [49;44;50;51;52]%Z.
Proof. vm_compute. reflexivity. Qed.

Print Assumptions C16_column_tracks_output.
Print Assumptions C16_devices_independent.
Print Assumptions C16_comma_next_zone.
Print Assumptions C16_semicolon_adds_nothing.
Print Assumptions C16_number_layout.
Print Assumptions C16_string_verbatim.
Print Assumptions C16_string_with_break.
Print Assumptions C16_line_end_rule.
Print Assumptions C16_using_literal_copied.
Print Assumptions C16_using_string_field_width.
Print Assumptions C16_using_numeric_width.
Print Assumptions C16_using_cycles.
