(** Theorems about the parser-combinator model (C20). *)
From Coq Require Import List Arith Bool Lia.
From RB Require Import PC.Model.
Import ListNotations.

(** * Basic facts *)

Lemma ret_inv r i seen o : ret r i seen = Done o ->
  o_res o = r /\ o_pos o = i /\
  o_fatal_seen o = (seen || match r with RErr e => is_fatal e | _ => false end).
Proof. unfold ret; intros H; inversion H; subst; cbn; auto. Qed.

Lemma to_fatal_is_fatal e : is_fatal (to_fatal e) = true.
Proof. destruct e; reflexivity. Qed.

Lemma soft_not_fatal e : is_soft e = true -> is_fatal e = false.
Proof. unfold is_soft; destruct (is_fatal e); cbn; congruence. Qed.

Lemma fatal_not_soft e : is_fatal e = true -> is_soft e = false.
Proof. unfold is_soft; intros ->; reflexivity. Qed.

Ltac inv_ret :=
  repeat match goal with
  | H : ret _ _ _ = Done _ |- _ =>
      apply ret_inv in H; destruct H as (? & ? & ?)
  | H : OutOfFuel = Done _ |- _ => discriminate H
  | H : Done _ = Done _ |- _ => inversion H; subst; clear H
  end.

Ltac break_hyp H :=
  repeat match type of H with
  | context [match ?x with _ => _ end] => destruct x eqn:?; try discriminate H
  | context [if ?x then _ else _] => destruct x eqn:?; try discriminate H
  end.

(** * 1. A parse never moves the position backwards (success or failure) *)

Definition mono1 (step : nat -> outcome) : Prop :=
  forall j o, step j = Done o -> j <= o_pos o.

Lemma many_loop_mono n step : mono1 step ->
  forall acc i seen o, many_loop n step acc i seen = Done o -> i <= o_pos o.
Proof.
  intros Hs. induction n as [|n IH]; intros acc i seen o H; cbn [many_loop] in H; [discriminate|].
  destruct (step i) as [[r i' f]|] eqn:E; [|discriminate].
  apply Hs in E; cbn in E.
  destruct r as [v|e].
  - apply IH in H. lia.
  - destruct (is_soft e); inv_ret; lia.
Qed.

Lemma or_loop_mono run1 : (forall q, mono1 (run1 q)) ->
  forall ps orig i seen o, orig <= i -> or_loop run1 ps orig i seen = Done o -> orig <= o_pos o.
Proof.
  intros Hs ps. induction ps as [|p ps IH]; intros orig i seen o Hle H; cbn [or_loop] in H.
  - inv_ret. lia.
  - destruct ps as [|p2 ps'].
    + destruct (run1 p i) as [[r i' f]|] eqn:E; [|discriminate]. apply Hs in E; cbn in E. inv_ret. lia.
    + destruct (run1 p i) as [[r i' f]|] eqn:E; [|discriminate]. apply Hs in E; cbn in E.
      destruct r as [v|e]; [inv_ret; lia|].
      destruct (is_soft e); [|inv_ret; lia].
      apply IH in H; lia.
Qed.

Lemma seq_rest_mono run1 : (forall q, mono1 (run1 q)) ->
  forall ps acc i seen o, seq_rest run1 ps acc i seen = Done o -> i <= o_pos o.
Proof.
  intros Hs ps. induction ps as [|p ps IH]; intros acc i seen o H; cbn [seq_rest] in H.
  - inv_ret. lia.
  - destruct (run1 p i) as [[r i' f]|] eqn:E; [|discriminate]. apply Hs in E; cbn in E.
    destruct r as [v|e]; [apply IH in H; lia|inv_ret; lia].
Qed.

Lemma delim_loop_mono n elt dl : mono1 elt -> mono1 dl ->
  forall tr am acc last i seen o, delim_loop n elt dl tr am acc last i seen = Done o -> i <= o_pos o.
Proof.
  intros He Hd. induction n as [|n IH]; intros tr am acc last i seen o H; cbn [delim_loop] in H; [discriminate|].
  destruct (elt i) as [[re i1 f1]|] eqn:E1; [|discriminate]. apply He in E1; cbn in E1.
  destruct re as [v|e].
  - destruct (dl i1) as [[rd i2 f2]|] eqn:E2; [|discriminate]. apply Hd in E2; cbn in E2.
    destruct rd as [vd|ed].
    + apply IH in H. lia.
    + destruct (is_fatal ed); inv_ret; lia.
  - destruct (is_fatal e); [inv_ret; lia|].
    destruct (dl i1) as [[rd i2 f2]|] eqn:E2; [|discriminate]. apply Hd in E2; cbn in E2.
    destruct rd as [vd|ed].
    + destruct am; [apply IH in H; lia|inv_ret; lia].
    + destruct (is_fatal ed); [inv_ret; lia|].
      destruct last as [|[|last]]; inv_ret; lia.
Qed.

Theorem pos_monotone n : forall p s i o, run n p s i = Done o -> i <= o_pos o.
Proof.
  induction n as [|n IH]; intros p s i o H; [discriminate|].
  assert (Hm : forall q, mono1 (fun j => run n q s j)) by (intros q j o' Hq; eapply IH; eassumption).
  cbn [run] in H. destruct p;
    try (break_hyp H; inv_ret;
         repeat match goal with E : run n _ _ _ = Done _ |- _ => apply IH in E; cbn [Model.o_pos] in E end;
         lia).
  - (* POr *) eapply or_loop_mono in H; eauto.
  - (* PMany *)
    destruct (run n p s i) as [[r i1 f1]|] eqn:E; [|discriminate]. apply IH in E; cbn in E.
    destruct r as [v|e].
    + eapply many_loop_mono in H; [lia|apply Hm].
    + break_hyp H; inv_ret; lia.
  - (* PDelimited *) eapply delim_loop_mono in H; eauto; apply Hm.
  - (* PSeq *)
    destruct (run n p s i) as [[r i1 f1]|] eqn:E; [|discriminate]. apply IH in E; cbn in E.
    destruct r as [v|e]; [|inv_ret; lia].
    eapply seq_rest_mono in H; [lia|exact Hm].
Qed.

Corollary success_monotone n p s i v j f :
  run n p s i = Done (mk_out (ROk v) j f) -> i <= j.
Proof. intros H. apply pos_monotone in H. exact H. Qed.

Theorem peek_keeps_index n p s i v j f :
  run n (PPeek p) s i = Done (mk_out (ROk v) j f) -> j = i.
Proof.
  destruct n as [|n]; [discriminate|]. cbn [run]. intros H. break_hyp H; inv_ret.
  cbn in *. congruence.
Qed.

(** * 2. Soft failures restore the position, for the closed class [restoring] *)

Fixpoint restoring (p : pexp) : bool :=
  match p with
  | PRead | PPeekTop | PSupplier _ | PErrSupplier _ => true
  | PFilter q _ | PFilterMap q _ | PMap q _ | PWithSoftErr q _ | PWrap q
  | PPeek q | PMany q _ => restoring q
  | PMapFatalErr q e => is_fatal e && restoring q
  | PToFatal _ | PToOption _ | POrDefault _ => true
  | PAnd l _ => restoring l
  | POr ps =>
      (fix last_r (l : list pexp) : bool :=
         match l with
         | [] => true
         | [q] => restoring q
         | _ :: t => last_r t
         end) ps
  | POr2 l r => restoring l && restoring r
  | PSurround l _ _ mandatory => negb mandatory || restoring l
  | PDelimited q d tr _ => is_fatal tr && restoring q && restoring d
  | PSeq first _ => restoring first
  | PAndThen _ _ | PAndThenErr _ _ => false
  end.

Fixpoint restoring_last (l : list pexp) : bool :=
  match l with
  | [] => true
  | [q] => restoring q
  | _ :: t => restoring_last t
  end.

Lemma restoring_or ps : restoring (POr ps) = restoring_last ps.
Proof. induction ps as [|p [|p2 ps] IH]; cbn in *; auto. Qed.

(** soft failure of [step] at [j] leaves the position at [j] *)
Definition soft_restores (step : nat -> outcome) : Prop :=
  forall j o e, step j = Done o -> o_res o = RErr e -> is_soft e = true -> o_pos o = j.

Lemma many_loop_never_soft n step : forall acc i seen o e,
  many_loop n step acc i seen = Done o -> o_res o = RErr e -> is_fatal e = true.
Proof.
  induction n as [|n IH]; intros acc i seen o e H Hr; cbn [many_loop] in H; [discriminate|].
  destruct (step i) as [[r i' f]|] eqn:E; [|discriminate].
  destruct r as [v|e'].
  - eapply IH; eauto.
  - destruct (is_soft e') eqn:Es; inv_ret; [congruence|].
    assert (e' = e) by congruence; subst. unfold is_soft in Es. destruct (is_fatal e); auto; discriminate.
Qed.

Lemma seq_rest_never_soft run1 : forall ps acc i seen o e,
  seq_rest run1 ps acc i seen = Done o -> o_res o = RErr e -> is_fatal e = true.
Proof.
  induction ps as [|p ps IH]; intros acc i seen o e H Hr; cbn [seq_rest] in H.
  - inv_ret; congruence.
  - destruct (run1 p i) as [[r i' f]|] eqn:E; [|discriminate].
    destruct r as [v|e']; [eapply IH; eauto|].
    inv_ret. assert (to_fatal e' = e) by congruence; subst. apply to_fatal_is_fatal.
Qed.

Lemma or_loop_soft run1 : forall ps orig seen o e,
  (forall q, restoring q = true -> soft_restores (run1 q)) ->
  restoring_last ps = true ->
  or_loop run1 ps orig orig seen = Done o -> o_res o = RErr e -> is_soft e = true -> o_pos o = orig.
Proof.
  induction ps as [|p ps IH]; intros orig seen o e Hs Hl H Hr Hsoft; cbn [or_loop] in H.
  - inv_ret; auto.
  - destruct ps as [|p2 ps'].
    + destruct (run1 p orig) as [[r i' f]|] eqn:E; [|discriminate]. inv_ret.
      eapply (Hs p Hl orig _ e) in E; cbn in *; congruence.
    + destruct (run1 p orig) as [[r i' f]|] eqn:E; [|discriminate].
      destruct r as [v|e']; [inv_ret; congruence|].
      destruct (is_soft e') eqn:Es.
      * eapply IH; eauto.
      * inv_ret. assert (e' = e) by congruence; subst. congruence.
Qed.

Lemma delim_loop_soft n elt dl : soft_restores elt -> soft_restores dl ->
  forall tr am acc last i seen o e, is_fatal tr = true ->
  delim_loop n elt dl tr am acc last i seen = Done o -> o_res o = RErr e -> is_soft e = true ->
  last = 0 /\ o_pos o = i.
Proof.
  intros He Hd. induction n as [|n IH]; intros tr am acc last i seen o e Htr H Hr Hsoft;
    cbn [delim_loop] in H; [discriminate|].
  destruct (elt i) as [[re i1 f1]|] eqn:E1; [|discriminate].
  destruct re as [v|e1].
  - destruct (dl i1) as [[rd i2 f2]|] eqn:E2; [|discriminate].
    destruct rd as [vd|ed].
    + eapply IH in H; eauto. destruct H; discriminate.
    + destruct (is_fatal ed) eqn:Ef; inv_ret.
      * assert (ed = e) by congruence; subst. apply soft_not_fatal in Hsoft. congruence.
      * congruence.
  - destruct (is_fatal e1) eqn:Ef1.
    + inv_ret. assert (e1 = e) by congruence; subst. apply soft_not_fatal in Hsoft. congruence.
    + assert (Hi1 : i1 = i).
      { eapply (He i _ e1) in E1; cbn in *; auto. unfold is_soft; now rewrite Ef1. }
      subst i1.
      destruct (dl i) as [[rd i2 f2]|] eqn:E2; [|discriminate].
      destruct rd as [vd|ed].
      * destruct am.
        -- eapply IH in H; eauto. destruct H; discriminate.
        -- inv_ret. assert (tr = e) by congruence; subst. apply soft_not_fatal in Hsoft. congruence.
      * destruct (is_fatal ed) eqn:Efd.
        -- inv_ret. assert (ed = e) by congruence; subst. apply soft_not_fatal in Hsoft. congruence.
        -- assert (Hi2 : i2 = i).
           { eapply (Hd i _ ed) in E2; cbn in *; auto. unfold is_soft; now rewrite Efd. }
           subst i2.
           destruct last as [|[|last]]; inv_ret; auto.
           ++ congruence.
           ++ assert (tr = e) by congruence; subst. apply soft_not_fatal in Hsoft. congruence.
Qed.

Theorem softfail_restores n : forall p s i o e,
  restoring p = true ->
  run n p s i = Done o -> o_res o = RErr e -> is_soft e = true -> o_pos o = i.
Proof.
  induction n as [|n IH]; intros p s i o e Hp H Hr Hsoft; [discriminate|].
  assert (Hsr : forall q, restoring q = true -> soft_restores (fun j => run n q s j)).
  { intros q Hq j o' e' Hrun Hres Hs'. eapply IH; eauto. }
  cbn [run] in H.
  destruct p; cbn [restoring] in Hp;
    repeat match goal with
    | Hx : _ && _ = true |- _ => apply andb_true_iff in Hx; destruct Hx
    end; try discriminate Hp.
  - (* PRead *) break_hyp H; inv_ret; auto; congruence.
  - (* PPeekTop *) break_hyp H; inv_ret; auto; congruence.
  - (* PSupplier *) inv_ret; auto; congruence.
  - (* PErrSupplier *) inv_ret; auto; congruence.
  - (* PFilter *)
    destruct (run n p s i) as [[r i1 f1]|] eqn:E; [|discriminate].
    destruct r as [v|e1]; [destruct (eval_pred f v); inv_ret; auto; congruence|].
    inv_ret. eapply (Hsr p Hp i _ e) in E; cbn in *; auto; congruence.
  - (* PFilterMap *)
    destruct (run n p s i) as [[r i1 f1]|] eqn:E; [|discriminate].
    destruct r as [v|e1]; [destruct (eval_pred f v); inv_ret; auto; congruence|].
    inv_ret. eapply (Hsr p Hp i _ e) in E; cbn in *; auto; congruence.
  - (* PAnd *)
    destruct (run n p1 s i) as [[r i1 f1]|] eqn:E1; [|discriminate].
    destruct r as [a|e1].
    + destruct (run n p2 s i1) as [[r2 i2 f2]|] eqn:E2; [|discriminate].
      destruct r2 as [b|e2]; inv_ret; [congruence|].
      assert (e2 = e) by congruence; subst. rewrite Hsoft in *. assumption.
    + inv_ret. eapply (Hsr p1 Hp i _ e) in E1; cbn in *; auto; congruence.
  - (* POr *)
    assert (Hp' : restoring_last ps = true) by (rewrite <- restoring_or; exact Hp).
    exact (or_loop_soft (fun q j => run n q s j) ps i false o e Hsr Hp' H Hr Hsoft).
  - (* POr2 *)
    destruct (run n p1 s i) as [[r i1 f1]|] eqn:E1; [|discriminate].
    destruct r as [a|e1]; [inv_ret; congruence|].
    destruct (is_soft e1) eqn:Es1.
    + eapply (Hsr p1 H0 i _ e1) in E1; cbn in *; auto. subst i1.
      destruct (run n p2 s i) as [[r2 i2 f2]|] eqn:E2; [|discriminate]. inv_ret.
      eapply (Hsr p2 H1 i _ e) in E2; cbn in *; auto; congruence.
    + inv_ret. assert (e1 = e) by congruence; subst. congruence.
  - (* PMany *)
    destruct (run n p s i) as [[r i1 f1]|] eqn:E1; [|discriminate].
    destruct r as [v|e1].
    + eapply many_loop_never_soft in H; eauto. apply soft_not_fatal in Hsoft. congruence.
    + destruct (is_soft e1) eqn:Es1.
      * destruct allow_none; inv_ret; [congruence|].
        eapply (Hsr p Hp i _ e1) in E1; cbn in *; auto; try congruence.
      * inv_ret. assert (e1 = e) by congruence; subst. congruence.
  - (* PPeek *)
    destruct (run n p s i) as [[r i1 f1]|] eqn:E1; [|discriminate].
    destruct r as [v|e1]; inv_ret; [congruence|].
    eapply (Hsr p Hp i _ e) in E1; cbn in *; auto; congruence.
  - (* PToOption *)
    destruct (run n p s i) as [[r i1 f1]|] eqn:E1; [|discriminate].
    destruct r as [v|e1]; [inv_ret; congruence|].
    destruct (is_soft e1) eqn:Es1; inv_ret; [congruence|].
    assert (e1 = e) by congruence; subst. congruence.
  - (* POrDefault *)
    destruct (run n p s i) as [[r i1 f1]|] eqn:E1; [|discriminate].
    destruct r as [v|e1]; [inv_ret; congruence|].
    destruct (is_soft e1) eqn:Es1; inv_ret; [congruence|].
    assert (e1 = e) by congruence; subst. congruence.
  - (* PSurround *)
    destruct (run n p1 s i) as [[rl i1 f1]|] eqn:E1; [|discriminate].
    destruct rl as [vl|el].
    + cbn in H.
      destruct (run n p2 s i1) as [[r2 i2 f2]|] eqn:E2; [|discriminate].
      destruct r2 as [v|e2].
      * destruct (run n p3 s i2) as [[r3 i3 f3]|] eqn:E3; [|discriminate].
        destruct r3 as [v3|e3]; [inv_ret; congruence|].
        destruct (is_fatal e3 || mandatory); inv_ret; [|congruence].
        assert (to_fatal e3 = e) by congruence; subst.
        apply soft_not_fatal in Hsoft. rewrite to_fatal_is_fatal in Hsoft; discriminate.
      * destruct (is_fatal e2 || mandatory); inv_ret; auto.
        assert (to_fatal e2 = e) by congruence; subst.
        apply soft_not_fatal in Hsoft. rewrite to_fatal_is_fatal in Hsoft; discriminate.
    + destruct (is_fatal el || mandatory) eqn:Estop.
      * inv_ret. assert (el = e) by congruence; subst.
        apply soft_not_fatal in Hsoft as Hnf. rewrite Hnf in Estop. cbn in Estop. subst mandatory.
        cbn in Hp. eapply (Hsr p1 Hp i _ e) in E1; cbn in *; auto; try congruence.
      * destruct (run n p2 s i1) as [[r2 i2 f2]|] eqn:E2; [|discriminate].
        destruct r2 as [v|e2].
        -- destruct (run n p3 s i2) as [[r3 i3 f3]|] eqn:E3; [|discriminate].
           destruct r3 as [v3|e3]; [inv_ret; congruence|].
           destruct (is_fatal e3 || mandatory); inv_ret; [|congruence].
           assert (to_fatal e3 = e) by congruence; subst.
           apply soft_not_fatal in Hsoft. rewrite to_fatal_is_fatal in Hsoft; discriminate.
        -- destruct (is_fatal e2 || mandatory); inv_ret; auto.
           assert (to_fatal e2 = e) by congruence; subst.
           apply soft_not_fatal in Hsoft. rewrite to_fatal_is_fatal in Hsoft; discriminate.
  - (* PDelimited *)
    eapply delim_loop_soft in H; eauto. destruct H; auto.
  - (* PSeq *)
    destruct (run n p s i) as [[r i1 f1]|] eqn:E1; [|discriminate].
    destruct r as [v|e1].
    + eapply seq_rest_never_soft in H; eauto. apply soft_not_fatal in Hsoft. congruence.
    + inv_ret. eapply (Hsr p Hp i _ e) in E1; cbn in *; auto; congruence.
  - (* PMap *)
    destruct (run n p s i) as [[r i1 f1]|] eqn:E1; [|discriminate].
    destruct r as [v|e1]; inv_ret; [congruence|].
    eapply (Hsr p Hp i _ e) in E1; cbn in *; auto; congruence.
  - (* PWithSoftErr *)
    destruct (run n p s i) as [[r i1 f1]|] eqn:E1; [|discriminate].
    destruct r as [v|e1]; [inv_ret; congruence|].
    destruct (is_soft e1) eqn:Es1; inv_ret.
    + eapply (Hsr p Hp i _ e1) in E1; cbn in *; auto; try congruence.
    + assert (e1 = e) by congruence; subst. congruence.
  - (* PMapFatalErr *)
    destruct (run n p s i) as [[r i1 f1]|] eqn:E1; [|discriminate].
    destruct r as [v|e1]; [inv_ret; congruence|].
    destruct (is_fatal e1) eqn:Ef1; inv_ret.
    + assert (e0 = e) by congruence; subst. apply soft_not_fatal in Hsoft. congruence.
    + assert (e1 = e) by congruence; subst.
      eapply (Hsr p ltac:(assumption) i _ e) in E1; cbn in *; auto; try congruence.
  - (* PToFatal *)
    destruct (run n p s i) as [[r i1 f1]|] eqn:E1; [|discriminate].
    destruct r as [v|e1]; inv_ret; [congruence|].
    assert (to_fatal e1 = e) by congruence; subst.
    apply soft_not_fatal in Hsoft. rewrite to_fatal_is_fatal in Hsoft; discriminate.
  - (* PWrap *) eapply IH; eauto.
Qed.

(** * 3. A fatal error is never swallowed or downgraded *)

(** well-formedness: the errors which the Rust constructors assert to be fatal are fatal *)
Fixpoint wf (p : pexp) : bool :=
  match p with
  | PRead | PPeekTop | PSupplier _ | PErrSupplier _ => true
  | PFilter q _ | PFilterMap q _ | PMap q _ | PWithSoftErr q _ | PWrap q | PPeek q | PMany q _
  | PToFatal q | PToOption q | POrDefault q | PAndThen q _ | PAndThenErr q _ => wf q
  | PMapFatalErr q e => is_fatal e && wf q
  | PAnd l r | POr2 l r => wf l && wf r
  | POr ps => forallb wf ps
  | PSurround l q r _ => wf l && wf q && wf r
  | PDelimited q d tr _ => is_fatal tr && wf q && wf d
  | PSeq first rest => wf first && forallb wf rest
  end.

(** the instrumentation flag is set only if the result is a fatal error *)
Definition fp (o : out) : Prop :=
  o_fatal_seen o = true -> exists e, o_res o = RErr e /\ is_fatal e = true.
Definition fp1 (step : nat -> outcome) : Prop := forall j o, step j = Done o -> fp o.

Lemma ret_fp r i seen o :
  (seen = true -> exists e, r = RErr e /\ is_fatal e = true) -> ret r i seen = Done o -> fp o.
Proof.
  intros Hs H. apply ret_inv in H as (Hr & _ & Hf). unfold fp. rewrite Hr, Hf.
  destruct seen; cbn; [auto|]. destruct r as [v|e]; [discriminate|]. eauto.
Qed.

Lemma fp_ok v j f : fp (mk_out (ROk v) j f) -> f = false.
Proof. unfold fp; cbn. destruct f; auto. intros H. destruct (H eq_refl) as (e & He & _). discriminate. Qed.

Lemma fp_soft e j f : fp (mk_out (RErr e) j f) -> is_soft e = true -> f = false.
Proof.
  unfold fp; cbn. destruct f; auto. intros H Hs. destruct (H eq_refl) as (e' & He & Hf).
  inversion He; subst. apply soft_not_fatal in Hs. congruence.
Qed.

Lemma fp_nonfatal e j f : fp (mk_out (RErr e) j f) -> is_fatal e = false -> f = false.
Proof. intros H Hf. eapply fp_soft; eauto. unfold is_soft; now rewrite Hf. Qed.

Ltac ret_fp_false := eapply ret_fp; [|eassumption]; let Hx := fresh in intros Hx; cbn in Hx; discriminate Hx.
Ltac ret_fp_fatal := eapply ret_fp; [|eassumption]; intros _; eexists; split; [reflexivity|assumption].

Lemma many_loop_fp n step : fp1 step ->
  forall acc i seen o, seen = false -> many_loop n step acc i seen = Done o -> fp o.
Proof.
  intros Hs. induction n as [|n IH]; intros acc i seen o Hseen H; cbn [many_loop] in H; [discriminate|].
  destruct (step i) as [[r i' f]|] eqn:E; [|discriminate]. apply Hs in E. subst seen.
  destruct r as [v|e].
  - apply fp_ok in E. subst f. eapply IH; eauto.
  - destruct (is_soft e) eqn:Es.
    + eapply fp_soft in E; eauto. subst f. ret_fp_false.
    + eapply ret_fp; [|eassumption]. intros _. exists e. split; auto.
      unfold is_soft in Es. destruct (is_fatal e); auto; discriminate.
Qed.

Lemma or_loop_fp run1 : forall ps orig i seen o,
  (forall q, In q ps -> fp1 (run1 q)) -> seen = false ->
  or_loop run1 ps orig i seen = Done o -> fp o.
Proof.
  induction ps as [|p ps IH]; intros orig i seen o Hs Hseen H; cbn [or_loop] in H; subst seen.
  - ret_fp_false.
  - assert (Hp : fp1 (run1 p)) by (apply Hs; left; reflexivity).
    destruct ps as [|p2 ps'].
    + destruct (run1 p i) as [[r i' f]|] eqn:E; [|discriminate]. apply Hp in E.
      eapply ret_fp; [|eassumption]. intros Hf. apply E. exact Hf.
    + destruct (run1 p i) as [[r i' f]|] eqn:E; [|discriminate]. apply Hp in E.
      destruct r as [v|e].
      * apply fp_ok in E; subst f. ret_fp_false.
      * destruct (is_soft e) eqn:Es.
        -- eapply fp_soft in E; eauto; subst f. eapply IH; eauto. intros q Hq. apply Hs. right; exact Hq.
        -- eapply ret_fp; [|eassumption]. intros _. exists e; split; auto.
           unfold is_soft in Es. destruct (is_fatal e); auto; discriminate.
Qed.

Lemma seq_rest_fp run1 : forall ps acc i seen o,
  (forall q, In q ps -> fp1 (run1 q)) -> seen = false ->
  seq_rest run1 ps acc i seen = Done o -> fp o.
Proof.
  induction ps as [|p ps IH]; intros acc i seen o Hs Hseen H; cbn [seq_rest] in H; subst seen.
  - ret_fp_false.
  - assert (Hp : fp1 (run1 p)) by (apply Hs; left; reflexivity).
    destruct (run1 p i) as [[r i' f]|] eqn:E; [|discriminate]. apply Hp in E.
    destruct r as [v|e].
    + apply fp_ok in E; subst f. eapply IH; eauto. intros q Hq. apply Hs. right; exact Hq.
    + eapply ret_fp; [|eassumption]. intros _. exists (to_fatal e). split; auto using to_fatal_is_fatal.
Qed.

Lemma delim_loop_fp n elt dl : fp1 elt -> fp1 dl ->
  forall tr am acc last i seen o, is_fatal tr = true -> seen = false ->
  delim_loop n elt dl tr am acc last i seen = Done o -> fp o.
Proof.
  intros He Hd. induction n as [|n IH]; intros tr am acc last i seen o Htr Hseen H;
    cbn [delim_loop] in H; [discriminate|]. subst seen.
  destruct (elt i) as [[re i1 f1]|] eqn:E1; [|discriminate]. apply He in E1.
  destruct re as [v|e].
  - apply fp_ok in E1; subst f1.
    destruct (dl i1) as [[rd i2 f2]|] eqn:E2; [|discriminate]. apply Hd in E2.
    destruct rd as [vd|ed].
    + apply fp_ok in E2; subst f2. (eapply IH; [exact Htr| |eassumption]; reflexivity).
    + destruct (is_fatal ed) eqn:Ef.
      * ret_fp_fatal.
      * eapply fp_nonfatal in E2; eauto; subst f2. ret_fp_false.
  - destruct (is_fatal e) eqn:Ef1.
    + ret_fp_fatal.
    + eapply fp_nonfatal in E1; eauto; subst f1.
      destruct (dl i1) as [[rd i2 f2]|] eqn:E2; [|discriminate]. apply Hd in E2.
      destruct rd as [vd|ed].
      * apply fp_ok in E2; subst f2. destruct am; [(eapply IH; [exact Htr| |eassumption]; reflexivity)|].
        ret_fp_fatal.
      * destruct (is_fatal ed) eqn:Efd.
        -- ret_fp_fatal.
        -- eapply fp_nonfatal in E2; eauto; subst f2.
           destruct last as [|[|last]]; ret_fp_false.
Qed.

Lemma forallb_In {A} (f : A -> bool) l : forallb f l = true -> forall x, In x l -> f x = true.
Proof. intros H x Hx. rewrite forallb_forall in H. auto. Qed.

Ltac split_wf :=
  repeat match goal with
  | Hx : _ && _ = true |- _ => apply andb_true_iff in Hx; destruct Hx
  end.

(** turns every equation about a sub-parse into the fact [flag = true -> fatal] *)
Ltac fp_facts IH :=
  repeat match goal with
  | E : run _ ?q _ _ = Done (mk_out _ _ _) |- _ =>
      apply IH in E; [|assumption]
  end.

Ltac fp_finish :=
  repeat match goal with
  | Hx : _ || _ = false |- _ => apply orb_false_iff in Hx; destruct Hx
  end;
  repeat match goal with
  | F : fp (mk_out (ROk _) _ ?f) |- _ => apply fp_ok in F; subst f
  | F : fp (mk_out (RErr ?e) _ ?f), Hs : is_soft ?e = true |- _ => eapply fp_soft in F; [|exact Hs]; subst f
  | F : fp (mk_out (RErr ?e) _ ?f), Hs : is_fatal ?e = false |- _ => eapply fp_nonfatal in F; [|exact Hs]; subst f
  end;
  eapply ret_fp; [|eassumption]; cbn;
  first
  [ let Hx := fresh in intros Hx; cbn in Hx; discriminate Hx
  | let Hx := fresh in intros Hx; cbn in Hx;
    match goal with F : fp _ |- _ => exact (F Hx) end
  | intros _; eexists; split; [reflexivity|];
    first [ assumption | apply to_fatal_is_fatal
          | match goal with
            | Hs : is_soft ?e = false |- is_fatal ?e = true =>
                unfold is_soft in Hs; destruct (is_fatal e); [reflexivity|discriminate Hs]
            end ] ].

Theorem fatal_propagates n : forall p s i o, wf p = true -> run n p s i = Done o -> fp o.
Proof.
  induction n as [|n IH]; intros p s i o Hwf H; [discriminate|].
  assert (IH' : forall q s j o, run n q s j = Done o -> wf q = true -> fp o) by (intros; eapply IH; eauto).
  assert (Hfp1 : forall q, wf q = true -> fp1 (fun j => run n q s j)) by (intros q Hq j o' Hr; eapply IH; eauto).
  cbn [run] in H.
  destruct p; cbn [wf] in Hwf; split_wf.
  all: try (break_hyp H; fp_facts IH'; fp_finish; fail).
  - (* POr *)
    eapply (or_loop_fp (fun q j => run n q s j)); [|reflexivity|exact H].
    intros q Hq. apply Hfp1. eapply forallb_In; eauto.
  - (* PMany *)
    destruct (run n p s i) as [[r i1 f1]|] eqn:E; [|discriminate].
    destruct r as [v|e].
    + apply IH' in E; [|assumption]. apply fp_ok in E; subst f1.
      eapply many_loop_fp; [|reflexivity|exact H]. apply Hfp1; assumption.
    + break_hyp H; fp_facts IH'; fp_finish.
  - (* PSurround *)
    destruct (run n p1 s i) as [[rl i1 f1]|] eqn:E1; [|discriminate].
    destruct rl as [vl|el]; break_hyp H; fp_facts IH'; fp_finish.
  - (* PDelimited *)
    eapply delim_loop_fp; [| |eassumption|reflexivity|exact H]; apply Hfp1; assumption.
  - (* PSeq *)
    destruct (run n p s i) as [[r i1 f1]|] eqn:E; [|discriminate].
    destruct r as [v|e].
    + apply IH' in E; [|assumption]. apply fp_ok in E; subst f1.
      eapply (seq_rest_fp (fun q j => run n q s j)); [|reflexivity|exact H].
      intros q Hq. apply Hfp1. eapply forallb_In; eauto.
    + fp_facts IH'; fp_finish.
  - (* PWrap *) eapply IH; eauto.
Qed.

(** * 4. Repetition returns exactly the maximal run of successes *)

Inductive succ_chain (step : nat -> outcome) : nat -> list val -> nat -> Prop :=
| sc_nil i : succ_chain step i [] i
| sc_cons i v i' f vs j :
    step i = Done (mk_out (ROk v) i' f) -> succ_chain step i' vs j -> succ_chain step i (v :: vs) j.

Theorem many_loop_maximal n step : forall acc i seen o,
  many_loop n step acc i seen = Done o ->
  exists vs j e f,
    succ_chain step i vs j /\
    step j = Done (mk_out (RErr e) (o_pos o) f) /\
    o_res o = (if is_soft e then ROk (VList (acc ++ vs)) else RErr e).
Proof.
  induction n as [|n IH]; intros acc i seen o H; cbn [many_loop] in H; [discriminate|].
  destruct (step i) as [[r i' f]|] eqn:E; [|discriminate].
  destruct r as [v|e].
  - apply IH in H as (vs & j & e & f' & Hc & Hstop & Hres).
    exists (v :: vs), j, e, f'. split; [econstructor; eauto|]. split; [exact Hstop|].
    rewrite Hres. rewrite <- app_assoc. reflexivity.
  - exists [], i, e, f. split; [constructor|].
    destruct (is_soft e) eqn:Es; inv_ret; subst; rewrite ?app_nil_r; cbn in *;
      (split; [congruence|]); rewrite ?Es; assumption.
Qed.

(** the statement for the combinator itself *)
Theorem many_maximal n p allow s i o :
  run (S n) (PMany p allow) s i = Done o ->
  exists vs j e f,
    succ_chain (fun k => run n p s k) i vs j /\
    run n p s j = Done (mk_out (RErr e) (o_pos o) f) /\
    o_res o = (if is_soft e
               then (match vs with [] => if allow then ROk (VList []) else RErr e | _ => ROk (VList vs) end)
               else RErr e).
Proof.
  cbn [run]. intros H.
  destruct (run n p s i) as [[r i1 f1]|] eqn:E; [|discriminate].
  destruct r as [v|e].
  - apply many_loop_maximal in H as (vs & j & e & f' & Hc & Hstop & Hres).
    exists (v :: vs), j, e, f'. split; [econstructor; eauto|]. split; [exact Hstop|].
    rewrite Hres. reflexivity.
  - exists [], i, e, f1. split; [constructor|].
    destruct (is_soft e) eqn:Es.
    + destruct allow; inv_ret; subst; split; congruence.
    + inv_ret; subst; split; congruence.
Qed.

(** * 5. Choice returns the first alternative that does not fail softly, each tried from the original position *)

Theorem or_first_success run1 : forall ps i seen o,
  ps <> [] ->
  or_loop run1 ps i i seen = Done o ->
  exists k q f,
    nth_error ps k = Some q /\
    run1 q i = Done (mk_out (o_res o) (o_pos o) f) /\
    (forall k' q', k' < k -> nth_error ps k' = Some q' ->
       exists e j f', run1 q' i = Done (mk_out (RErr e) j f') /\ is_soft e = true) /\
    (S k = length ps \/ match o_res o with RErr e => is_soft e = false | ROk _ => True end).
Proof.
  induction ps as [|p ps IH]; intros i seen o Hne H; [congruence|]. cbn [or_loop] in H.
  destruct ps as [|p2 ps'].
  - destruct (run1 p i) as [[r i' f]|] eqn:E; [|discriminate]. inv_ret.
    rewrite H, H0. exists 0, p, f. cbn.
    split; [reflexivity|]. split; [exact E|]. split; [intros k' q' Hlt; lia|left; reflexivity].
  - destruct (run1 p i) as [[r i' f]|] eqn:E; [|discriminate].
    destruct r as [v|e].
    + inv_ret. rewrite H, H0. exists 0, p, f. cbn.
      split; [reflexivity|]. split; [exact E|]. split; [intros k' q' Hlt; lia|right; exact I].
    + destruct (is_soft e) eqn:Es.
      * apply IH in H as (k & q & f' & Hn & Hr & Hbefore & Hlast); [|discriminate].
        exists (S k), q, f'. cbn [nth_error].
        split; [exact Hn|]. split; [exact Hr|]. split.
        -- intros [|k'] q' Hlt Hq'; cbn in Hq'.
           ++ inversion Hq'; subst. eauto.
           ++ eapply Hbefore; eauto. lia.
        -- destruct Hlast as [Hl|Hl]; [left; cbn in *; lia|right; exact Hl].
      * inv_ret. rewrite H, H0. exists 0, p, f. cbn.
        split; [reflexivity|]. split; [exact E|]. split; [intros k' q' Hlt; lia|right; exact Es].
Qed.

(** * 6. Delimited lists reject a trailing delimiter fatally *)

Theorem delimited_trailing_fatal n elt dl tr am acc i seen e1 j1 f1 e2 j2 f2 :
  elt i = Done (mk_out (RErr e1) j1 f1) -> is_fatal e1 = false ->
  dl j1 = Done (mk_out (RErr e2) j2 f2) -> is_fatal e2 = false ->
  exists o, delim_loop (S n) elt dl tr am acc 2 i seen = Done o /\ o_res o = RErr tr /\ o_pos o = j2.
Proof.
  intros E1 F1 E2 F2. cbn [delim_loop]. rewrite E1, F1, E2, F2.
  eexists; split; [reflexivity|]. cbn. auto.
Qed.

(** ... and continue after "value delimiter": the loop state after a delimiter is 2 *)
Theorem delimited_after_delimiter n elt dl tr am acc last i seen v j1 f1 vd j2 f2 :
  elt i = Done (mk_out (ROk v) j1 f1) ->
  dl j1 = Done (mk_out (ROk vd) j2 f2) ->
  delim_loop (S n) elt dl tr am acc last i seen =
  delim_loop n elt dl tr am (acc ++ [if am then VSome v else v]) 2 j2 (seen || f1 || f2).
Proof. intros E1 E2. cbn [delim_loop]. rewrite E1, E2. reflexivity. Qed.

