(** Model of the parser-combinator library rusty_pc (C20, C07).

    Deep embedding [pexp] of the combinators; [run] mirrors the Rust [parse] methods one by one,
    over an input of symbols with an explicit position. Values are a universal type. The result
    carries, besides the [Result] and the position afterwards, an instrumentation flag that
    records whether any sub-parse executed on the way returned a fatal error.

    Not modelled: the context-passing combinators (ctx_parser, iif_ctx, map_ctx, no_context,
    many_ctx, then_with_in_context, flatten) - they thread a stored context through [set_context]. *)
From Coq Require Import List Arith Bool.
Import ListNotations.

Definition sym := nat.

Inductive val :=
| VSym (a : sym)
| VUnit
| VNone
| VSome (v : val)
| VList (l : list val)
| VPair (a b : val)
| VTag (t : nat) (v : val).   (* result of a [map] with the function number [t] *)

Inductive err := Soft (t : nat) | Fatal (t : nat).

Definition is_fatal (e : err) : bool := match e with Fatal _ => true | Soft _ => false end.
Definition is_soft (e : err) : bool := negb (is_fatal e).
Definition to_fatal (e : err) : err := match e with Soft t => Fatal t | Fatal t => Fatal t end.
Definition default_err : err := Soft 0.

(** predicates used by filter / filter_map *)
Inductive pred := IsSym (a : sym) | NotSym (a : sym) | PTrue | PFalse.

Definition eval_pred (p : pred) (v : val) : bool :=
  match p, v with
  | IsSym a, VSym b => Nat.eqb a b
  | IsSym _, _ => false
  | NotSym a, VSym b => negb (Nat.eqb a b)
  | NotSym _, _ => true
  | PTrue, _ => true
  | PFalse, _ => false
  end.

(** functions used by and_then / and_then_err *)
Inductive vfun := FOk (t : nat) | FErr (e : err) | FOkIf (p : pred) (e : err).
Definition eval_vfun (f : vfun) (v : val) : val + err :=
  match f with
  | FOk t => inl (VTag t v)
  | FErr e => inr e
  | FOkIf p e => if eval_pred p v then inl v else inr e
  end.
Inductive efun := EKeep | EOk (v : val) | EErr (e : err).
Definition eval_efun (f : efun) (e : err) : val + err :=
  match f with
  | EKeep => inr e
  | EOk v => inl v
  | EErr e' => inr e'
  end.

Inductive pexp :=
| PRead                                   (* read_p *)
| PPeekTop                                (* peek_p *)
| PSupplier (v : val)                     (* supplier *)
| PErrSupplier (e : err)                  (* err_supplier *)
| PFilter (p : pexp) (f : pred)           (* filter; one_p = PFilter PRead (IsSym a) *)
| PFilterMap (p : pexp) (f : pred)        (* filter_map with |x| if f(x) { Some(x) } else { None } *)
| PAnd (l r : pexp)                       (* and_tuple *)
| POr (ps : list pexp)                    (* OrParser (n-ary, boxed); non-empty *)
| POr2 (l r : pexp)                       (* OrParserNoBox *)
| PMany (p : pexp) (allow_none : bool)    (* many / many_allow_none with VecManyCombiner *)
| PPeek (p : pexp)                        (* .peek() *)
| PToOption (p : pexp)
| POrDefault (p : pexp)                   (* default value = VUnit *)
| PSurround (l p r : pexp) (mandatory : bool)
| PDelimited (p d : pexp) (trailing : err) (allow_missing : bool)
| PSeq (first : pexp) (rest : list pexp)  (* seq2 .. seq6: rest non-empty *)
| PAndThen (p : pexp) (f : vfun)
| PAndThenErr (p : pexp) (f : efun)
| PMap (p : pexp) (t : nat)
| PWithSoftErr (p : pexp) (e : err)       (* with_soft_err / or_fail / or_expected *)
| PMapFatalErr (p : pexp) (e : err)
| PToFatal (p : pexp)
| PWrap (p : pexp).                       (* boxed / lazy: transparent *)

(** outcome of one parse: result, position afterwards, "a fatal error was returned by some executed sub-parse" *)
Inductive res := ROk (v : val) | RErr (e : err).
Record out := mk_out { o_res : res; o_pos : nat; o_fatal_seen : bool }.

Inductive outcome := Done (o : out) | OutOfFuel.

Definition ret (r : res) (i : nat) (seen : bool) : outcome :=
  Done (mk_out r i (seen || match r with RErr e => is_fatal e | _ => false end)).

Definition at_eof (s : list sym) (i : nat) : bool := Nat.leb (length s) i.

(** the loop of ManyParser after the first element; [step i] parses one element at [i] *)
Fixpoint many_loop (n : nat) (step : nat -> outcome) (acc : list val) (i : nat) (seen : bool) : outcome :=
  match n with
  | O => OutOfFuel
  | S n' =>
      match step i with
      | OutOfFuel => OutOfFuel
      | Done (mk_out (ROk v) i' f) => many_loop n' step (acc ++ [v]) i' (seen || f)
      | Done (mk_out (RErr e) i' f) =>
          if is_soft e then ret (ROk (VList acc)) i' (seen || f)
          else ret (RErr e) i' (seen || f)
      end
  end.

(** OrParser: all alternatives but the last are tried from [orig]; a soft failure restores [orig];
    the last alternative's result is returned as it is *)
Fixpoint or_loop (run1 : pexp -> nat -> outcome) (ps : list pexp) (orig : nat) (i : nat) (seen : bool) : outcome :=
  match ps with
  | [] => ret (RErr default_err) i seen   (* unreachable: Rust would panic on an empty list *)
  | [p] =>
      match run1 p i with
      | OutOfFuel => OutOfFuel
      | Done (mk_out r i' f) => ret r i' (seen || f)
      end
  | p :: rest =>
      match run1 p i with
      | OutOfFuel => OutOfFuel
      | Done (mk_out (ROk v) i' f) => ret (ROk v) i' (seen || f)
      | Done (mk_out (RErr e) i' f) =>
          if is_soft e then or_loop run1 rest orig orig (seen || f)
          else ret (RErr e) i' (seen || f)
      end
  end.

(** SeqN: the parsers after the first; any error becomes fatal *)
Fixpoint seq_rest (run1 : pexp -> nat -> outcome) (ps : list pexp) (acc : list val) (i : nat) (seen : bool) : outcome :=
  match ps with
  | [] => ret (ROk (VList acc)) i seen
  | p :: rest =>
      match run1 p i with
      | OutOfFuel => OutOfFuel
      | Done (mk_out (ROk v) i' f) => seq_rest run1 rest (acc ++ [v]) i' (seen || f)
      | Done (mk_out (RErr e) i' f) => ret (RErr (to_fatal e)) i' (seen || f)
      end
  end.

(** DelimitedParser main loop. [last] : 0 = Nothing, 1 = Value, 2 = Delimiter *)
Fixpoint delim_loop (n : nat) (elt dl : nat -> outcome) (trailing : err) (allow_missing : bool)
         (acc : list val) (last : nat) (i : nat) (seen : bool) : outcome :=
  match n with
  | O => OutOfFuel
  | S n' =>
      match elt i with
      | OutOfFuel => OutOfFuel
      | Done (mk_out re i1 f1) =>
          let seen1 := seen || f1 in
          let continue (acc1 : list val) (last1 : nat) (got_value : bool) :=
            match dl i1 with
            | OutOfFuel => OutOfFuel
            | Done (mk_out (ROk _) i2 f2) =>
                if got_value then delim_loop n' elt dl trailing allow_missing acc1 2 i2 (seen1 || f2)
                else if allow_missing
                     then delim_loop n' elt dl trailing allow_missing (acc1 ++ [VNone]) 2 i2 (seen1 || f2)
                     else ret (RErr trailing) i2 (seen1 || f2)
            | Done (mk_out (RErr e) i2 f2) =>
                if is_fatal e then ret (RErr e) i2 (seen1 || f2)
                else match last1 with
                     | 0 => ret (RErr default_err) i2 (seen1 || f2)
                     | 1 => ret (ROk (VList acc1)) i2 (seen1 || f2)
                     | _ => ret (RErr trailing) i2 (seen1 || f2)
                     end
            end in
          match re with
          | ROk v => continue (acc ++ [if allow_missing then VSome v else v]) 1 true
          | RErr e => if is_fatal e then ret (RErr e) i1 seen1 else continue acc last false
          end
      end
  end.

Fixpoint run (fuel : nat) (p : pexp) (s : list sym) (i : nat) {struct fuel} : outcome :=
  match fuel with
  | O => OutOfFuel
  | S n =>
      let sub q j := run n q s j in
      match p with
      | PRead =>
          if at_eof s i then ret (RErr default_err) i false
          else ret (ROk (VSym (nth i s 0))) (S i) false
      | PPeekTop =>
          if at_eof s i then ret (RErr default_err) i false
          else ret (ROk (VSym (nth i s 0))) i false
      | PSupplier v => ret (ROk v) i false
      | PErrSupplier e => ret (RErr e) i false
      | PFilter q f =>
          match sub q i with
          | OutOfFuel => OutOfFuel
          | Done (mk_out (ROk v) i' fs) =>
              if eval_pred f v then ret (ROk v) i' fs else ret (RErr default_err) i fs
          | Done (mk_out (RErr e) i' fs) => ret (RErr e) i' fs
          end
      | PFilterMap q f =>
          match sub q i with
          | OutOfFuel => OutOfFuel
          | Done (mk_out (ROk v) i' fs) =>
              if eval_pred f v then ret (ROk v) i' fs else ret (RErr default_err) i fs
          | Done (mk_out (RErr e) i' fs) => ret (RErr e) i' fs
          end
      | PAnd l r =>
          match sub l i with
          | OutOfFuel => OutOfFuel
          | Done (mk_out (RErr e) i1 f1) => ret (RErr e) i1 f1
          | Done (mk_out (ROk a) i1 f1) =>
              match sub r i1 with
              | OutOfFuel => OutOfFuel
              | Done (mk_out (ROk b) i2 f2) => ret (ROk (VPair a b)) i2 (f1 || f2)
              | Done (mk_out (RErr e) i2 f2) =>
                  ret (RErr e) (if is_soft e then i else i2) (f1 || f2)
              end
          end
      | POr ps => or_loop sub ps i i false
      | POr2 l r =>
          match sub l i with
          | OutOfFuel => OutOfFuel
          | Done (mk_out (ROk v) i1 f1) => ret (ROk v) i1 f1
          | Done (mk_out (RErr e) i1 f1) =>
              if is_soft e then
                match sub r i1 with
                | OutOfFuel => OutOfFuel
                | Done (mk_out r2 i2 f2) => ret r2 i2 (f1 || f2)
                end
              else ret (RErr e) i1 f1
          end
      | PMany q allow_none =>
          match sub q i with
          | OutOfFuel => OutOfFuel
          | Done (mk_out (ROk v) i1 f1) => many_loop n (sub q) [v] i1 f1
          | Done (mk_out (RErr e) i1 f1) =>
              if is_soft e then
                if allow_none then ret (ROk (VList [])) i1 f1 else ret (RErr e) i1 f1
              else ret (RErr e) i1 f1
          end
      | PPeek q =>
          match sub q i with
          | OutOfFuel => OutOfFuel
          | Done (mk_out (ROk v) i1 f1) => ret (ROk v) i f1
          | Done (mk_out (RErr e) i1 f1) => ret (RErr e) i1 f1
          end
      | PToOption q =>
          match sub q i with
          | OutOfFuel => OutOfFuel
          | Done (mk_out (ROk v) i1 f1) => ret (ROk (VSome v)) i1 f1
          | Done (mk_out (RErr e) i1 f1) =>
              if is_soft e then ret (ROk VNone) i1 f1 else ret (RErr e) i1 f1
          end
      | POrDefault q =>
          match sub q i with
          | OutOfFuel => OutOfFuel
          | Done (mk_out (ROk v) i1 f1) => ret (ROk v) i1 f1
          | Done (mk_out (RErr e) i1 f1) =>
              if is_soft e then ret (ROk VUnit) i1 f1 else ret (RErr e) i1 f1
          end
      | PSurround l q r mandatory =>
          match sub l i with
          | OutOfFuel => OutOfFuel
          | Done (mk_out rl i1 f1) =>
              let stop_left := match rl with RErr e => is_fatal e || mandatory | ROk _ => false end in
              if stop_left then ret rl i1 f1
              else
                match sub q i1 with
                | OutOfFuel => OutOfFuel
                | Done (mk_out (RErr e) i2 f2) =>
                    if is_fatal e || mandatory then ret (RErr (to_fatal e)) i2 (f1 || f2)
                    else ret (RErr e) i (f1 || f2)
                | Done (mk_out (ROk v) i2 f2) =>
                    match sub r i2 with
                    | OutOfFuel => OutOfFuel
                    | Done (mk_out (ROk _) i3 f3) => ret (ROk v) i3 (f1 || f2 || f3)
                    | Done (mk_out (RErr e) i3 f3) =>
                        if is_fatal e || mandatory then ret (RErr (to_fatal e)) i3 (f1 || f2 || f3)
                        else ret (ROk v) i3 (f1 || f2 || f3)
                    end
                end
          end
      | PDelimited q d trailing allow_missing =>
          delim_loop n (sub q) (sub d) trailing allow_missing [] 0 i false
      | PSeq first rest =>
          match sub first i with
          | OutOfFuel => OutOfFuel
          | Done (mk_out (RErr e) i1 f1) => ret (RErr e) i1 f1
          | Done (mk_out (ROk v) i1 f1) => seq_rest sub rest [v] i1 f1
          end
      | PAndThen q f =>
          match sub q i with
          | OutOfFuel => OutOfFuel
          | Done (mk_out (ROk v) i1 f1) =>
              match eval_vfun f v with
              | inl v' => ret (ROk v') i1 f1
              | inr e => ret (RErr e) i1 f1
              end
          | Done (mk_out (RErr e) i1 f1) => ret (RErr e) i1 f1
          end
      | PAndThenErr q f =>
          match sub q i with
          | OutOfFuel => OutOfFuel
          | Done (mk_out (ROk v) i1 f1) => ret (ROk v) i1 f1
          | Done (mk_out (RErr e) i1 f1) =>
              if is_soft e then
                match eval_efun f e with
                | inl v => ret (ROk v) i1 f1
                | inr e' => ret (RErr e') i1 f1
                end
              else ret (RErr e) i1 f1
          end
      | PMap q t =>
          match sub q i with
          | OutOfFuel => OutOfFuel
          | Done (mk_out (ROk v) i1 f1) => ret (ROk (VTag t v)) i1 f1
          | Done (mk_out (RErr e) i1 f1) => ret (RErr e) i1 f1
          end
      | PWithSoftErr q e' =>
          match sub q i with
          | OutOfFuel => OutOfFuel
          | Done (mk_out (ROk v) i1 f1) => ret (ROk v) i1 f1
          | Done (mk_out (RErr e) i1 f1) =>
              if is_soft e then ret (RErr e') i1 f1 else ret (RErr e) i1 f1
          end
      | PMapFatalErr q e' =>
          match sub q i with
          | OutOfFuel => OutOfFuel
          | Done (mk_out (ROk v) i1 f1) => ret (ROk v) i1 f1
          | Done (mk_out (RErr e) i1 f1) =>
              if is_fatal e then ret (RErr e') i1 f1 else ret (RErr e) i1 f1
          end
      | PToFatal q =>
          match sub q i with
          | OutOfFuel => OutOfFuel
          | Done (mk_out (ROk v) i1 f1) => ret (ROk v) i1 f1
          | Done (mk_out (RErr e) i1 f1) => ret (RErr (to_fatal e)) i1 f1
          end
      | PWrap q => sub q i
      end
  end.

(** ** Boolean equalities for the correspondence check *)
Fixpoint val_eqb (a b : val) : bool :=
  match a, b with
  | VSym x, VSym y => Nat.eqb x y
  | VUnit, VUnit => true
  | VNone, VNone => true
  | VSome x, VSome y => val_eqb x y
  | VList l, VList r =>
      (fix go (l r : list val) : bool :=
         match l, r with
         | [], [] => true
         | x :: l', y :: r' => val_eqb x y && go l' r'
         | _, _ => false
         end) l r
  | VPair a1 a2, VPair b1 b2 => val_eqb a1 b1 && val_eqb a2 b2
  | VTag t x, VTag u y => Nat.eqb t u && val_eqb x y
  | _, _ => false
  end.

Definition err_eqb (a b : err) : bool :=
  match a, b with
  | Soft x, Soft y => Nat.eqb x y
  | Fatal x, Fatal y => Nat.eqb x y
  | _, _ => false
  end.

Definition res_eqb (a b : res) : bool :=
  match a, b with
  | ROk x, ROk y => val_eqb x y
  | RErr x, RErr y => err_eqb x y
  | _, _ => false
  end.

(** result of the implementation: [Some (res, pos)], or [None] when the model must run out of fuel *)
Definition agrees (o : outcome) (impl : res * nat) : bool :=
  match o with
  | Done (mk_out r i _) => res_eqb r (fst impl) && Nat.eqb i (snd impl)
  | OutOfFuel => false
  end.

(** all inputs over an alphabet of [k] symbols up to length [n], shortest first, lexicographic *)
Fixpoint inputs_of_len (k n : nat) : list (list sym) :=
  match n with
  | O => [[]]
  | S n' => flat_map (fun a => map (cons a) (inputs_of_len k n')) (seq 0 k)
  end.
Definition all_inputs (k n : nat) : list (list sym) := flat_map (inputs_of_len k) (seq 0 (S n)).

Definition check_case (fuel : nat) (p : pexp) (k n : nat) (impl : list (res * nat)) : bool :=
  let ins := all_inputs k n in
  Nat.eqb (length ins) (length impl) &&
  forallb (fun si => agrees (run fuel p (fst si) 0) (snd si)) (combine ins impl).
