(** A verifier for the stack discipline and the branch structure of generated code.

    The real instruction list is abstracted (by the harness) to what matters here: the control
    effect of each instruction and how many entries it pops from / pushes on each of the VM's
    stacks (value stack, register stack, var-path stack, context states, by-ref queue, stack trace).
    A certificate gives, for every reachable address, the depth of every stack relative to the
    enclosing frame (procedure call, GOSUB or error handler). [check_all] checks the certificate
    locally; [VerifierProofs] shows that a checked certificate describes every execution of the
    abstract machine below, which takes both sides of every conditional branch. *)
From Coq Require Import List Arith Bool.
Import ListNotations.

Definition dvec := list nat.

Inductive aop :=
| APlain                         (* continues with the next instruction *)
| AJump (t : nat)
| AJumpIfFalse (t : nat)
| ACall (t ret : nat)            (* GoSub t (ret = next) / PushRet ret; Jump t *)
| ARet                           (* PopRet / RETURN: back to the caller's frame *)
| AStop (kind : nat)             (* 0 Halt, 1 Throw, 2 Resume*, 3 RETURN label and other ends of a path *)
| AHandler (t : nat).            (* ON ERROR GOTO t: continues; t is a handler entry *)

Record ainstr := mk_ai { op : aop; pops : dvec; pushes : dvec }.

(** ** depth vectors *)
Fixpoint vgeb (d p : dvec) : bool :=
  match d, p with
  | [], [] => true
  | x :: d', y :: p' => Nat.leb y x && vgeb d' p'
  | _, _ => false
  end.

Fixpoint vapply (d p q : dvec) : dvec :=     (* d - p + q, pointwise *)
  match d, p, q with
  | x :: d', y :: p', z :: q' => (x - y + z) :: vapply d' p' q'
  | _, _, _ => []
  end.

Fixpoint veqb (a b : dvec) : bool :=
  match a, b with
  | [], [] => true
  | x :: a', y :: b' => Nat.eqb x y && veqb a' b'
  | _, _ => false
  end.

Definition vzero (n : nat) : dvec := repeat 0 n.
Definition nstacks : nat := 6.

(** ** the abstract machine *)
Record astate := mk_as { apc : nat; adepth : dvec; aframes : list (nat * dvec) }.

Inductive ares := ANext (s : astate) | ADone | AUnderflow | ABadTarget.

(** [choice] resolves the conditional branch *)
Definition astep (code : list ainstr) (s : astate) (choice : bool) : ares :=
  match nth_error code (apc s) with
  | None => ABadTarget
  | Some i =>
      if negb (vgeb (adepth s) (pops i)) then AUnderflow
      else
        let d := vapply (adepth s) (pops i) (pushes i) in
        match op i with
        | APlain | AHandler _ => ANext (mk_as (S (apc s)) d (aframes s))
        | AJump t => ANext (mk_as t d (aframes s))
        | AJumpIfFalse t => ANext (mk_as (if choice then S (apc s) else t) d (aframes s))
        | ACall t ret => ANext (mk_as t (vzero nstacks) ((ret, d) :: aframes s))
        | ARet =>
            match aframes s with
            | (ret, d') :: fs => ANext (mk_as ret (vapply d' (vzero nstacks) d) fs)   (* what is left over stays *)
            | [] => ADone                                                            (* RETURN without GOSUB: a BASIC error *)
            end
        | AStop _ => ADone
        end
  end.

Fixpoint arun (code : list ainstr) (choices : list bool) (s : astate) : ares :=
  match choices with
  | [] => ANext s
  | c :: cs => match astep code s c with ANext s' => arun code cs s' | r => r end
  end.

(** ** the certificate and its local check *)
Definition cert := list (option dvec).

Definition cert_at (c : cert) (pc : nat) : option dvec :=
  match nth_error c pc with Some (Some d) => Some d | _ => None end.

Definition cert_is (c : cert) (pc : nat) (d : dvec) : bool :=
  match cert_at c pc with Some d' => veqb d' d | None => false end.

Definition check_at (code : list ainstr) (c : cert) (pc : nat) : bool :=
  match cert_at c pc, nth_error code pc with
  | None, _ => true                        (* claimed unreachable: nothing to check *)
  | Some _, None => false
  | Some d0, Some i =>
      Nat.eqb (length d0) nstacks && Nat.eqb (length (pops i)) nstacks && Nat.eqb (length (pushes i)) nstacks &&
      vgeb d0 (pops i) &&
      let d := vapply d0 (pops i) (pushes i) in
      match op i with
      | APlain => cert_is c (S pc) d
      | AHandler t => cert_is c (S pc) d && cert_is c t (vzero nstacks)
      | AJump t => cert_is c t d
      | AJumpIfFalse t => cert_is c t d && cert_is c (S pc) d
      | ACall t ret => cert_is c t (vzero nstacks) && cert_is c ret d
      | ARet => veqb d (vzero nstacks)
      | AStop _ => true
      end
  end.

Definition check_cert (code : list ainstr) (c : cert) : bool :=
  Nat.eqb (length c) (length code) &&
  cert_is c 0 (vzero nstacks) &&
  forallb (check_at code c) (seq 0 (length code)).

(** ** the other well-formedness checks on the instruction list *)

(** every label defined once (labels are interned as numbers by the harness) *)
Fixpoint nodupb (l : list nat) : bool :=
  match l with
  | [] => true
  | x :: t => negb (existsb (Nat.eqb x) t) && nodupb t
  end.

(** statement addresses strictly ascending... the generator may record the same address twice for an
    empty statement, so: non-decreasing, and inside the list *)
Fixpoint ascending (l : list nat) : bool :=
  match l with
  | x :: ((y :: _) as t) => Nat.leb x y && ascending t
  | _ => true
  end.

(** regions: (start, end) half-open; the first is the main module *)
Definition in_region (r : nat * nat) (a : nat) : bool := Nat.leb (fst r) a && Nat.ltb a (snd r).

Definition targets_ok (code : list ainstr) (regions : list (nat * nat)) (r : nat * nat) (pc : nat) : bool :=
  match nth_error code pc with
  | None => false
  | Some i =>
      match op i with
      | AJump t | AJumpIfFalse t | AHandler t => in_region r t
      | ACall t ret =>
          in_region r ret && (in_region r t || existsb (fun q => Nat.eqb (fst q) t) regions)
      | _ => true
      end
  end.

Definition region_ok (code : list ainstr) (regions : list (nat * nat)) (is_main : bool) (r : nat * nat) : bool :=
  Nat.ltb (fst r) (snd r) && Nat.leb (snd r) (length code) &&
  forallb (targets_ok code regions r) (seq (fst r) (snd r - fst r)) &&
  match nth_error code (snd r - 1) with
  | Some i => match op i with
              | AStop 0 => is_main
              | ARet => negb is_main
              | _ => false
              end
  | None => false
  end.

Fixpoint regions_cover (regions : list (nat * nat)) (from total : nat) : bool :=
  match regions with
  | [] => Nat.eqb from total
  | r :: t => Nat.eqb (fst r) from && regions_cover t (snd r) total
  end.

(** 0 = well-formed; otherwise the number of the first check that fails *)
Definition wf_code (code : list ainstr) (c : cert) (marks : list nat) (regions : list (nat * nat)) (labels : list nat) : nat :=
  if negb (check_cert code c) then 1
  else if negb (nodupb labels) then 2
  else if negb (ascending marks && forallb (fun a => Nat.ltb a (length code)) marks) then 3
  else if negb (regions_cover regions 0 (length code)) then 4
  else if negb (match regions with
                | [] => false
                | m :: ps => region_ok code regions true m && forallb (region_ok code regions false) ps
                end) then 5
  else 0.
