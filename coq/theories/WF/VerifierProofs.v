(** Soundness of the certificate check: a checked certificate describes every execution of the
    abstract machine, so no stack underflows, no branch leaves the list, and the depth of every
    stack at an address is a constant of the address (relative to the frame). *)
From Coq Require Import List Arith Bool Lia Sorted.
From RB Require Import WF.Verifier.
Import ListNotations.

Lemma veqb_eq : forall a b, veqb a b = true -> a = b.
Proof.
  induction a as [|x a IH]; intros [|y b] H; cbn in H; try discriminate; [reflexivity|].
  apply andb_true_iff in H. destruct H as [H1 H2]. apply Nat.eqb_eq in H1. subst. f_equal. auto.
Qed.

Lemma veqb_refl : forall a, veqb a a = true.
Proof. induction a as [|x a IH]; cbn; [reflexivity|]. rewrite Nat.eqb_refl, IH. reflexivity. Qed.

Lemma cert_is_at c pc d : cert_is c pc d = true -> cert_at c pc = Some d.
Proof.
  unfold cert_is. destruct (cert_at c pc) as [d'|]; [|discriminate]. intros H. apply veqb_eq in H. subst. reflexivity.
Qed.

Lemma cert_at_is c pc d : cert_at c pc = Some d -> cert_is c pc d = true.
Proof. unfold cert_is. intros ->. apply veqb_refl. Qed.

Lemma cert_at_lt c pc d : cert_at c pc = Some d -> pc < length c.
Proof.
  unfold cert_at. destruct (nth_error c pc) eqn:E; [|discriminate]. intros _.
  apply nth_error_Some. congruence.
Qed.

Lemma vapply_zero : forall d n, length d = n -> vapply d (repeat 0 n) (repeat 0 n) = d.
Proof.
  induction d as [|x d IH]; intros n H; cbn in *; subst; [reflexivity|].
  cbn. rewrite IH by reflexivity. f_equal. lia.
Qed.

Definition Inv (c : cert) (s : astate) : Prop :=
  cert_at c (apc s) = Some (adepth s) /\
  Forall (fun f => cert_at c (fst f) = Some (snd f)) (aframes s).

Section Sound.
Variables (code : list ainstr) (c : cert).
Hypothesis Hc : check_cert code c = true.

Lemma check_parts : length c = length code /\ cert_at c 0 = Some (vzero nstacks) /\
  forall pc, pc < length code -> check_at code c pc = true.
Proof.
  unfold check_cert in Hc. apply andb_true_iff in Hc. destruct Hc as [H12 H3].
  apply andb_true_iff in H12. destruct H12 as [H1 H2].
  apply Nat.eqb_eq in H1. split; [exact H1|]. split; [apply cert_is_at; exact H2|].
  intros pc Hpc. rewrite forallb_forall in H3. apply H3. apply in_seq. lia.
Qed.

Lemma cert_len pc d : cert_at c pc = Some d -> length d = nstacks.
Proof.
  intros H. destruct check_parts as (HL & _ & Hall).
  pose proof (cert_at_lt _ _ _ H) as Hlt. rewrite HL in Hlt.
  specialize (Hall pc Hlt). unfold check_at in Hall. rewrite H in Hall.
  destruct (nth_error code pc); [|discriminate].
  repeat (apply andb_true_iff in Hall; destruct Hall as [Hall ?]).
  apply Nat.eqb_eq in Hall. exact Hall.
Qed.

Theorem step_sound s ch : Inv c s ->
  match astep code s ch with
  | ANext s' => Inv c s'
  | ADone => True
  | AUnderflow | ABadTarget => False
  end.
Proof.
  intros [Hd Hf]. destruct check_parts as (HL & _ & Hall).
  pose proof (cert_at_lt _ _ _ Hd) as Hlt. rewrite HL in Hlt.
  specialize (Hall _ Hlt). unfold check_at in Hall. rewrite Hd in Hall.
  unfold astep. destruct (nth_error code (apc s)) as [i|] eqn:Ei; [|discriminate].
  apply andb_true_iff in Hall. destruct Hall as [Hall Hop].
  apply andb_true_iff in Hall. destruct Hall as [Hall Hge].
  rewrite Hge. cbn [negb].
  destruct (op i) as [| t | t | t ret | | k | t]; cbn [Inv apc adepth aframes].
  - apply cert_is_at in Hop. split; assumption.
  - apply cert_is_at in Hop. split; assumption.
  - apply andb_true_iff in Hop. destruct Hop as [H1 H2]. apply cert_is_at in H1. apply cert_is_at in H2.
    destruct ch; split; assumption.
  - apply andb_true_iff in Hop. destruct Hop as [H1 H2]. apply cert_is_at in H1. apply cert_is_at in H2.
    split; [assumption|]. constructor; assumption.
  - destruct (aframes s) as [|[ret d'] fs]; [exact I|].
    inversion Hf as [|? ? Hr Hfs]; subst. cbn [fst snd] in Hr.
    apply veqb_eq in Hop. rewrite Hop.
    rewrite vapply_zero by (eapply cert_len; eassumption).
    split; assumption.
  - exact I.
  - apply andb_true_iff in Hop. destruct Hop as [H1 H2]. apply cert_is_at in H1. split; assumption.
Qed.

Theorem run_sound : forall choices s, Inv c s ->
  match arun code choices s with
  | ANext s' => Inv c s'
  | ADone => True
  | AUnderflow | ABadTarget => False
  end.
Proof.
  induction choices as [|ch cs IH]; intros s H; cbn [arun]; [exact H|].
  pose proof (step_sound s ch H) as Hs.
  destruct (astep code s ch) as [s'| | |]; [apply IH; exact Hs|exact I|contradiction|contradiction].
Qed.

Lemma inv_initial : Inv c (mk_as 0 (vzero nstacks) []).
Proof. destruct check_parts as (_ & H0 & _). split; [exact H0|constructor]. Qed.

(** a handler entry, with whatever frames are active, also satisfies the invariant *)
Lemma inv_entry t fs : cert_at c t = Some (vzero nstacks) ->
  Forall (fun f => cert_at c (fst f) = Some (snd f)) fs -> Inv c (mk_as t (vzero nstacks) fs).
Proof. intros H1 H2. split; assumption. Qed.

(** every reachable depth vector is one of the finitely many the certificate lists *)
Corollary depth_is_static choices s' :
  arun code choices (mk_as 0 (vzero nstacks) []) = ANext s' ->
  In (Some (adepth s')) c /\ Forall (fun f => In (Some (snd f)) c) (aframes s').
Proof.
  intros H. pose proof (run_sound choices _ inv_initial) as R. rewrite H in R. destruct R as [R1 R2].
  assert (A : forall pc d, cert_at c pc = Some d -> In (Some d) c).
  { intros pc d E. unfold cert_at in E. destruct (nth_error c pc) as [[d0|]|] eqn:En; try discriminate.
    inversion E; subst. eapply nth_error_In; eassumption. }
  split; [eapply A; eassumption|].
  eapply Forall_impl; [|exact R2]. intros f Hf. cbv beta in Hf. eapply A. exact Hf.
Qed.
End Sound.

(** ** the list checks mean what they say *)
Lemma nodupb_spec : forall l, nodupb l = true <-> NoDup l.
Proof.
  induction l as [|x l IH]; cbn [nodupb].
  - split; [constructor|reflexivity].
  - rewrite andb_true_iff, negb_true_iff, IH. split.
    + intros [H1 H2]. constructor; [|assumption]. intros Hin.
      assert (E : existsb (Nat.eqb x) l = true) by (apply existsb_exists; exists x; split; [assumption|apply Nat.eqb_refl]).
      congruence.
    + intros H. inversion H as [|? ? Hn Hd]; subst. split; [|assumption].
      destruct (existsb (Nat.eqb x) l) eqn:E; [|reflexivity].
      apply existsb_exists in E. destruct E as (y & Hy & Hxy). apply Nat.eqb_eq in Hxy. subst. contradiction.
Qed.

Lemma ascending_spec : forall l, ascending l = true <-> Sorted le l.
Proof.
  induction l as [|x l IH]; [split; [constructor|reflexivity]|].
  destruct l as [|y l]; [split; [repeat constructor|reflexivity]|].
  change (ascending (x :: y :: l)) with (Nat.leb x y && ascending (y :: l)).
  rewrite andb_true_iff, IH, Nat.leb_le. split.
  - intros [H1 H2]. constructor; [assumption|constructor; assumption].
  - intros H. inversion H as [|? ? Hs Hh]; subst. inversion Hh; subst. split; assumption.
Qed.
