(** Typed AST of the core language after static checking (the fragment of C01): scalar variables of
    the five types, expressions, assignment, PRINT (screen), IF/ELSEIF/ELSE, WHILE, DO (4 forms), FOR,
    SELECT CASE. Every node carries the source position the real AST carries. *)
From Coq Require Import List ZArith Bool.
From RB Require Import Generated.Tables Val.Variant.
Import ListNotations.
Local Open Scope nat_scope.

Definition pos := (nat * nat)%type.          (* row, column *)
Definition name := (list Z * qual)%type.     (* bare name (as written), qualifier *)

Inductive expr :=
| ELit (p : pos) (v : variant)
| EVar (p : pos) (n : name)
| EBin (p : pos) (op : bop) (l r : expr)
| EUn (p : pos) (op : uop) (e : expr)
| EParen (p : pos) (e : expr).

Definition epos (e : expr) : pos :=
  match e with ELit p _ | EVar p _ | EBin p _ _ _ | EUn p _ _ | EParen p _ => p end.

Definition qual_eqb (a b : qual) : bool :=
  match a, b with
  | QSingle, QSingle | QDouble, QDouble | QInteger, QInteger | QLong, QLong | QString, QString => true
  | _, _ => false
  end.

(** the language's typing rule for [l op r], written by hand: strings only concatenate and compare;
    comparisons, AND, OR and MOD of numbers are INTEGERs; + - * / of numbers have the wider operand
    type (INTEGER < LONG < SINGLE < DOUBLE). [TableRule.cast_binary_op_is_the_rule] shows that the table
    dumped from the checker's own code on every run IS this rule. *)
Definition is_string_q (q : qual) : bool := match q with QString => true | _ => false end.
Definition rank (q : qual) : nat := match q with QInteger => 0 | QLong => 1 | QSingle => 2 | QDouble => 3 | QString => 4 end.
Definition wider (a b : qual) : qual := if Nat.leb (rank a) (rank b) then b else a.
Definition is_comparison (o : bop) : bool :=
  match o with Less | LessOrEqual | Equal | GreaterOrEqual | Greater | NotEqual => true | _ => false end.

Definition spec_binary_op (l r : qual) (op : bop) : option qual :=
  match is_string_q l, is_string_q r with
  | true, true => if is_comparison op then Some QInteger else match op with Plus => Some QString | _ => None end
  | false, false =>
      match op with
      | Plus | Minus | Multiply | Divide => Some (wider l r)
      | _ => Some QInteger
      end
  | _, _ => None
  end.

(** static type: the language rule *)
Fixpoint etype (e : expr) : option qual :=
  match e with
  | ELit _ v => Some (tag v)
  | EVar _ n => Some (snd n)
  | EBin _ op l r =>
      match etype l, etype r with
      | Some a, Some b => spec_binary_op a b op
      | _, _ => None
      end
  | EUn _ _ c => match etype c with Some QString => None | t => t end
  | EParen _ c => etype c
  end.

Inductive print_arg := PComma | PSemi | PExpr (e : expr).

Inductive case_expr :=
| CSimple (e : expr)
| CIs (op : bop) (e : expr)
| CRange (lo hi : expr).

Inductive stmt :=
| SAssign (p : pos) (target : name) (e : expr)
| SPrint (p : pos) (args : list print_arg)
| SIf (p : pos) (c : expr) (thn : list stmt) (elifs : list (expr * list stmt)) (els : option (list stmt))
| SWhile (p : pos) (c : expr) (body : list stmt)
| SDo (p : pos) (top until : bool) (c : expr) (body : list stmt)
| SFor (p : pos) (v : name) (lo hi : expr) (step : option expr) (body : list stmt)
| SSelect (p : pos) (e : expr) (cases : list (list case_expr * list stmt)) (els : option (list stmt))
| SData (p : pos) (items : list expr)
| SRead (p : pos) (targets : list (name * pos)).

Definition program := list stmt.

Definition is_data (s : stmt) : bool := match s with SData _ _ => true | _ => false end.
