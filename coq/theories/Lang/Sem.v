(** Big-step reference semantics of the core fragment, written from the language rules: it mentions
    no instruction, register, label or stack. *)
From Coq Require Import List ZArith Bool Floats.SpecFloat.
From RB Require Import Generated.Tables Val.Variant Val.Arith2 Lang.Ast RT.Printer.
Import ListNotations.

(** variables: created on first use with the default value of their type *)
Definition env := list (name * variant).

Fixpoint bytes_eqb (a b : list Z) : bool :=
  match a, b with
  | [], [] => true
  | x :: a', y :: b' => Z.eqb x y && bytes_eqb a' b'
  | _, _ => false
  end.

(** names are compared case-insensitively on the bare part (ASCII) *)
Definition up (c : Z) : Z := if (Z.leb 97 c && Z.leb c 122)%bool then (c - 32)%Z else c.
Definition name_eqb (a b : name) : bool := bytes_eqb (map up (fst a)) (map up (fst b)) && qual_eqb (snd a) (snd b).

Definition default_of (q : qual) : variant :=
  match q with
  | QSingle => VSingle (S754_zero false) | QDouble => VDouble (S754_zero false)
  | QInteger => VInteger 0 | QLong => VLong 0 | QString => VString []
  end.

Fixpoint lookup (st : env) (n : name) : variant :=
  match st with
  | [] => default_of (snd n)
  | (k, v) :: t => if name_eqb k n then v else lookup t n
  end.

Fixpoint assign (st : env) (n : name) (v : variant) : env :=
  match st with
  | [] => [(n, v)]
  | (k, w) :: t => if name_eqb k n then (k, v) :: t else (k, w) :: assign t n v
  end.

Definition mem (st : env) (n : name) : bool := existsb (fun kv => name_eqb (fst kv) n) st.
(** reading a variable creates it (observable only through the order of creation) *)
Definition touch (st : env) (n : name) : env := if mem st n then st else st ++ [(n, default_of (snd n))].

(** result of evaluating: a value, or a run-time error (code as [verr]) at a position *)
Inductive eres := EVal (v : variant) (st : env) | EErr (e : verr) (p : pos).

Fixpoint eval (e : expr) (st : env) : eres :=
  match e with
  | ELit _ v => EVal v st
  | EVar _ n => let st' := touch st n in EVal (lookup st' n) st'
  | EParen _ c => eval c st
  | EUn p op c =>
      match eval c st with
      | EVal v st' =>
          match (match op with UMinus => negate v | UNot => unary_not v end) with
          | Ok r => EVal r st'
          | Err x => EErr x p
          end
      | err => err
      end
  | EBin p op l r =>
      match eval l st with
      | EVal a st1 =>
          match eval r st1 with
          | EVal b st2 =>
              match binop op a b with
              | Ok v => EVal v st2
              | Err x => EErr x p
              end
          | err => err
          end
      | err => err
      end
  end.

(** implicit conversion on a store: to the target's type when the static types differ *)
Definition convert_to (q : qual) (e : expr) (v : variant) : vres variant :=
  match etype e with
  | Some qs => store q qs v
  | None => Err ETypeMismatch
  end.

(** the devices a program talks to: the screen, and the DATA items not yet READ *)
Record io := mk_io { scr : dev; dat : list variant }.
Definition io0 : io := mk_io dev0 [].
Definition set_scr (i : io) (d : dev) : io := mk_io d (dat i).

Record state := mk_state { vars : env; screen : io }.

Inductive outcome :=
| Done (s : state)
| Failed (e : verr) (p : pos) (s : state)     (* run-time error: code, position, state so far *)
| StepZero (p : pos) (s : state)              (* FOR with STEP 0 (error 258) *)
| OutOfFuel.

(** what PRINT shows for a value; the decimal text of numbers is a parameter (Rust Display) *)
Section WithNumberText.
Variable num_text : variant -> list Z.     (* text of |v| without sign, for numeric v *)
Variable is_negative : variant -> bool.

Definition item_of (v : variant) : item :=
  match v with
  | VString s => IStr s
  | _ => INum (is_negative v) (num_text v)
  end.

Fixpoint print_items (args : list print_arg) (s : state) (d : dev) (skip : bool) : (dev * bool * env) + (verr * pos * dev * env) :=
  match args with
  | [] => inl (d, skip, vars s)
  | PComma :: t => print_items t s (next_zone d) true
  | PSemi :: t => print_items t s d true
  | PExpr e :: t =>
      match eval e (vars s) with
      | EVal v st' => print_items t (mk_state st' (screen s)) (print d (item_text (item_of v))) false
      | EErr x p => inr (x, p, d, vars s)
      end
  end.

Definition cmp_case (subject : variant) (c : case_expr) (st : env) (p : pos) : (bool * env) + (verr * pos) :=
  let test (op : bop) (e : expr) (st : env) :=
    match eval e st with
    | EVal v st' => match binop op subject v with
                    | Ok r => match truthy r with Ok b => inl (b, st') | Err x => inr (x, p) end
                    | Err x => inr (x, p)
                    end
    | EErr x q => inr (x, q)
    end in
  match c with
  | CSimple e => test Equal e st
  | CIs op e => test op e st
  | CRange lo hi =>
      match test GreaterOrEqual lo st with
      | inl (true, st') => test LessOrEqual hi st'
      | other => other
      end
  end.

Fixpoint any_case (subject : variant) (cs : list case_expr) (st : env) (p : pos) : (bool * env) + (verr * pos) :=
  match cs with
  | [] => inl (false, st)
  | c :: t =>
      match cmp_case subject c st p with
      | inl (true, st') => inl (true, st')
      | inl (false, st') => any_case subject t st' p
      | err => err
      end
  end.

(** DATA: the items are evaluated left to right and appended to the queue *)
Fixpoint eval_items (items : list expr) (e : env) : (list variant * env) + (verr * pos) :=
  match items with
  | [] => inl ([], e)
  | x :: t =>
      match eval x e with
      | EErr err q => inr (err, q)
      | EVal v e' =>
          match eval_items t e' with
          | inl (vs, e'') => inl (v :: vs, e'')
          | inr r => inr r
          end
      end
  end.

(** READ: the targets are looked at in order (which creates them), then one item per target is
    taken from the queue and converted to the type of the target's current value; only when all
    succeeded are the values stored, in order. An error (Out of DATA, Type mismatch, Overflow)
    stores nothing; the items taken so far are gone *)
Fixpoint collect (targets : list (name * pos)) (e : env) : list (variant * name) * env :=
  match targets with
  | [] => ([], e)
  | (n, _) :: t =>
      let e' := touch e n in
      let '(fr, e'') := collect t e' in
      ((lookup e' n, n) :: fr, e'')
  end.

Fixpoint read_vals (quals : list qual) (d : list variant) : (list variant * list variant) + (verr * list variant) :=
  match quals with
  | [] => inl ([], d)
  | q :: t =>
      match d with
      | [] => inr (EOutOfData, d)
      | w :: d' =>
          match cast w q with
          | Err x => inr (x, d')
          | Ok w' =>
              match read_vals t d' with
              | inl (ws, d'') => inl (w' :: ws, d'')
              | inr r => inr r
              end
          end
      end
  end.

Fixpoint store_all (names : list name) (ws : list variant) (e : env) : env :=
  match names, ws with
  | n :: t, w :: ws' => store_all t ws' (assign (touch e n) n w)
  | _, _ => e
  end.


Definition cond (e : expr) (s : state) (p : pos) : (bool * state) + outcome :=
  match eval e (vars s) with
  | EVal v st' => match truthy v with
                  | Ok b => inl (b, mk_state st' (screen s))
                  | Err x => inr (Failed x p (mk_state st' (screen s)))
                  end
  | EErr x q => inr (Failed x q s)
  end.

Fixpoint exec (fuel : nat) (s : stmt) (st : state) {struct fuel} : outcome :=
  match fuel with
  | O => OutOfFuel
  | S f =>
      let block := fix block (l : list stmt) (st : state) : outcome :=
        match l with
        | [] => Done st
        | x :: t => match exec f x st with Done st' => block t st' | o => o end
        end in
      match s with
      | SAssign p n e =>
          match eval e (vars st) with
          | EErr x q => Failed x q st
          | EVal v st' =>
              match convert_to (snd n) e v with
              | Ok v' => Done (mk_state (assign (touch st' n) n v') (screen st))
              | Err x => Failed x (epos e) (mk_state st' (screen st))
              end
          end
      | SPrint p args =>
          match print_items args st (scr (screen st)) false with
          | inl (d, skip, st') => Done (mk_state st' (set_scr (screen st) (if skip then d else println d)))
          | inr (x, q, d, st') => Failed x q (mk_state st' (set_scr (screen st) d))
          end
      | SIf p c thn elifs els =>
          match cond c st p with
          | inr o => o
          | inl (true, st1) => block thn st1
          | inl (false, st1) =>
              (fix chain (l : list (expr * list stmt)) (st : state) : outcome :=
                 match l with
                 | [] => match els with Some b => block b st | None => Done st end
                 | (c', b) :: t =>
                     match cond c' st p with
                     | inr o => o
                     | inl (true, st2) => block b st2
                     | inl (false, st2) => chain t st2
                     end
                 end) elifs st1
          end
      | SWhile p c body =>
          match cond c st p with
          | inr o => o
          | inl (false, st1) => Done st1
          | inl (true, st1) =>
              match block body st1 with
              | Done st2 => exec f (SWhile p c body) st2
              | o => o
              end
          end
      | SDo p top until c body =>
          (* UNTIL c is executed as NOT c on the condition's value *)
          let test (st : state) : (bool * state) + outcome :=
            match eval c (vars st) with
            | EErr x q => inr (Failed x q st)
            | EVal v st' =>
                let s' := mk_state st' (screen st) in
                match (if until then unary_not v else Ok v) with
                | Err x => inr (Failed x p s')
                | Ok w => match truthy w with Ok b => inl (b, s') | Err x => inr (Failed x p s') end
                end
            end in
          if top then
            match test st with
            | inr o => o
            | inl (false, st1) => Done st1
            | inl (true, st1) =>
                match block body st1 with
                | Done st2 => exec f (SDo p top until c body) st2
                | o => o
                end
            end
          else
            match block body st with
            | Done st1 =>
                match test st1 with
                | inr o => o
                | inl (false, st2) => Done st2
                | inl (true, st2) => exec f (SDo p top until c body) st2
                end
            | o => o
            end
      | SFor p v lo hi step body =>
          (* bounds and step are evaluated once, converted to the counter's type *)
          let conv (e : expr) (st : state) : (variant * state) + outcome :=
            match eval e (vars st) with
            | EErr x q => inr (Failed x q st)
            | EVal w st' =>
                match convert_to (snd v) e w with
                | Ok w' => inl (w', mk_state st' (screen st))
                | Err x => inr (Failed x (epos e) (mk_state st' (screen st)))
                end
            end in
          match conv lo st with
          | inr o => o
          | inl (lo_v, st1) =>
              let st1' := mk_state (assign (touch (vars st1) v) v lo_v) (screen st1) in
              match conv hi st1' with
              | inr o => o
              | inl (hi_v, st2) =>
                  match (match step with Some se => conv se st2 | None => inl (VInteger 1, st2) end) with
                  | inr o => o
                  | inl (step_v, st3) =>
                      match binop NotEqual step_v (VInteger 0) with
                      | Err x => Failed x p st3
                      | Ok nz =>
                          match truthy nz with
                          | Ok false => StepZero (match step with Some se => epos se | None => p end) st3
                          | Err x => Failed x p st3
                          | Ok true =>
                              (fix loop (n : nat) (st : state) : outcome :=
                                 match n with
                                 | O => OutOfFuel
                                 | S n' =>
                                     (* reading the counter creates it, like any read of a variable *)
                                     let st := mk_state (touch (vars st) v) (screen st) in
                                     let cur := lookup (vars st) v in
                                     let neg := match step with
                                                | None => Ok (of_bool false)
                                                | Some _ => binop Less step_v (VInteger 0)
                                                end in
                                     match neg with
                                     | Err x => Failed x p st
                                     | Ok negv =>
                                         match truthy negv with
                                         | Err x => Failed x p st
                                         | Ok isneg =>
                                             match binop (if isneg then GreaterOrEqual else LessOrEqual) cur hi_v with
                                             | Err x => Failed x p st
                                             | Ok t =>
                                                 match truthy t with
                                                 | Err x => Failed x p st
                                                 | Ok false => Done st
                                                 | Ok true =>
                                                     match block body st with
                                                     | Done st' =>
                                                         let st' := mk_state (touch (vars st') v) (screen st') in
                                                         match binop Plus (lookup (vars st') v) step_v with
                                                         | Err x => Failed x p st'
                                                         | Ok nv => loop n' (mk_state (assign (vars st') v nv) (screen st'))
                                                         end
                                                     | o => o
                                                     end
                                                 end
                                             end
                                         end
                                     end
                                 end) f st3
                          end
                      end
                  end
              end
          end
      | SSelect p e cases els =>
          match eval e (vars st) with
          | EErr x q => Failed x q st
          | EVal subject st0 =>
              (fix pick (l : list (list case_expr * list stmt)) (st : state) : outcome :=
                 match l with
                 | [] => match els with Some b => block b st | None => Done st end
                 | (cs, b) :: t =>
                     match any_case subject cs (vars st) p with
                     | inr (x, q) => Failed x q st
                     | inl (true, st') => block b (mk_state st' (screen st))
                     | inl (false, st') => pick t (mk_state st' (screen st))
                     end
                 end) cases (mk_state st0 (screen st))
          end
      | SData p items =>
          match eval_items items (vars st) with
          | inr (x, q) => Failed x q st
          | inl (vs, e') => Done (mk_state e' (mk_io (scr (screen st)) (dat (screen st) ++ vs)))
          end
      | SRead p targets =>
          let '(fr, e1) := collect targets (vars st) in
          match read_vals (map (fun x => tag (fst x)) fr) (dat (screen st)) with
          | inr (x, d') => Failed x p (mk_state e1 (mk_io (scr (screen st)) d'))
          | inl (ws, d') => Done (mk_state (store_all (map snd fr) ws e1) (mk_io (scr (screen st)) d'))
          end
      end
  end.

Fixpoint exec_program (fuel : nat) (p : program) (st : state) : outcome :=
  match p with
  | [] => Done st
  | s :: t => match exec fuel s st with Done st' => exec_program fuel t st' | o => o end
  end.

(** the implicitly declared variables are created, with the default value of their type, in the
    order in which the checker found them *)
Definition declare (dims : list (name * pos)) (e : env) : env :=
  fold_left (fun e d => assign (touch e (fst d)) (fst d) (default_of (snd (fst d)))) dims e.

(** a main program: its DATA statements first, then the implicit declarations, then the other statements *)
Definition exec_main (fuel : nat) (dims : list (name * pos)) (p : program) : outcome :=
  match exec_program fuel (filter is_data p) (mk_state [] io0) with
  | Done sd => exec_program fuel (filter (fun s => negb (is_data s)) p) (mk_state (declare dims (vars sd)) (screen sd))
  | o => o
  end.

End WithNumberText.
