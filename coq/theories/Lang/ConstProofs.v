(** The folder agrees with run-time evaluation: an accepted constant expression has exactly the
    value its inlined form evaluates to, and it is rejected for Overflow / Division by zero exactly
    when evaluation raises that error - unless the folder answers Type mismatch (AND/OR on
    non-INTEGER operands, which the VM would convert). *)
From Coq Require Import List ZArith Bool Floats.SpecFloat.
From RB Require Import Generated.Tables Val.Bits Val.Variant Val.Arith2 Lang.Ast Lang.Sem Lang.Const.
Import ListNotations.

Lemma strict_logical_ok : forall b x y v, strict_logical b x y = Ok v -> logical b x y = Ok v.
Proof.
  intros b x y v H. destruct x; try discriminate. destruct y; try discriminate.
  cbn in H. inversion H; subst. reflexivity.
Qed.

Lemma strict_logical_err : forall b x y e, strict_logical b x y = Err e -> e = ETypeMismatch.
Proof.
  intros b x y e H. destruct x; destruct y; cbn in H; try discriminate; inversion H; reflexivity.
Qed.

Lemma fold_binop_ok : forall o a b v, fold_binop o a b = Ok v -> binop o a b = Ok v.
Proof. intros o a b v H. destruct o; try exact H; cbn in *; apply strict_logical_ok; exact H. Qed.

Lemma fold_binop_err : forall o a b e, fold_binop o a b = Err e -> e <> ETypeMismatch -> binop o a b = Err e.
Proof.
  intros o a b e H Hn. destruct o; try exact H; cbn in H; apply strict_logical_err in H; contradiction.
Qed.

Theorem fold_value : forall env e v, fold env e = COk v ->
  exists e', inline env e = Some e' /\ forall st, eval e' st = EVal v st.
Proof.
  induction e as [w|n oq|o l IHl r IHr|o c IHc|c IHc]; intros v H; cbn [fold inline] in *.
  - inversion H; subst. eexists; split; [reflexivity|]. intros st. reflexivity.
  - destruct (clookup env n) as [w|]; [|discriminate]. destruct oq as [q|].
    + destruct (qual_eqb (tag w) q); [|discriminate]. inversion H; subst.
      eexists; split; [reflexivity|]. intros st. reflexivity.
    + inversion H; subst. eexists; split; [reflexivity|]. intros st. reflexivity.
  - destruct (fold env l) as [a| |]; try discriminate.
    destruct (fold env r) as [b| |]; try discriminate.
    destruct (fold_binop o a b) as [w|] eqn:Eb; [|discriminate]. inversion H; subst w.
    destruct (IHl a eq_refl) as (l' & Il & El). destruct (IHr b eq_refl) as (r' & Ir & Er).
    rewrite Il, Ir. eexists; split; [reflexivity|]. intros st. cbn [eval]. rewrite El, Er.
    rewrite (fold_binop_ok _ _ _ _ Eb). reflexivity.
  - destruct (fold env c) as [a| |]; try discriminate.
    destruct (IHc a eq_refl) as (c' & Ic & Ec). rewrite Ic.
    eexists; split; [reflexivity|]. intros st. cbn [eval]. rewrite Ec.
    destruct o.
    + destruct (negate a) as [w|]; [|discriminate]. inversion H; subst. reflexivity.
    + destruct (unary_not a) as [w|]; [|discriminate]. inversion H; subst. reflexivity.
  - destruct (IHc v H) as (c' & Ic & Ec). rewrite Ic. eexists; split; [reflexivity|].
    intros st. cbn [eval]. apply Ec.
Qed.

Theorem fold_error : forall env e x, fold env e = CErr x -> x <> ETypeMismatch ->
  forall e', inline env e = Some e' -> forall st, exists p, eval e' st = EErr x p.
Proof.
  induction e as [w|n oq|o l IHl r IHr|o c IHc|c IHc]; intros x H Hx e' Hi st; cbn [fold inline] in *.
  - discriminate.
  - destruct (clookup env n) as [w|]; [|discriminate]. destruct oq as [q|]; [|discriminate].
    destruct (qual_eqb (tag w) q); [discriminate|]. inversion H; subst. contradiction.
  - destruct (inline env l) as [l'|] eqn:Il; [|discriminate].
    destruct (inline env r) as [r'|] eqn:Ir; [|discriminate]. inversion Hi; subst e'. cbn [eval].
    destruct (fold env l) as [a|y|] eqn:Fl; try discriminate.
    + destruct (fold_value env l a Fl) as (l2 & Il2 & El). rewrite Il in Il2. inversion Il2; subst l2. rewrite El.
      destruct (fold env r) as [b|y|] eqn:Fr; try discriminate.
      * destruct (fold_value env r b Fr) as (r2 & Ir2 & Er). rewrite Ir in Ir2. inversion Ir2; subst r2. rewrite Er.
        destruct (fold_binop o a b) as [w|y] eqn:Eb; [discriminate|]. inversion H; subst y.
        rewrite (fold_binop_err _ _ _ _ Eb Hx). eexists; reflexivity.
      * inversion H; subst y. destruct (IHr x eq_refl Hx r' eq_refl st) as [p Hp]. rewrite Hp. eexists; reflexivity.
    + inversion H; subst y. destruct (IHl x eq_refl Hx l' eq_refl st) as [p Hp]. rewrite Hp. eexists; reflexivity.
  - destruct (inline env c) as [c'|] eqn:Ic; [|discriminate]. inversion Hi; subst e'. cbn [eval].
    destruct (fold env c) as [a|y|] eqn:Fc; try discriminate.
    + destruct (fold_value env c a Fc) as (c2 & Ic2 & Ec). rewrite Ic in Ic2. inversion Ic2; subst c2. rewrite Ec.
      destruct o.
      * destruct (negate a) as [w|y]; [discriminate|]. inversion H; subst. eexists; reflexivity.
      * destruct (unary_not a) as [w|y]; [discriminate|]. inversion H; subst. eexists; reflexivity.
    + inversion H; subst y. destruct (IHc x eq_refl Hx c' eq_refl st) as [p Hp]. rewrite Hp. eexists; reflexivity.
  - destruct (inline env c) as [c'|] eqn:Ic; [|discriminate]. inversion Hi; subst e'. cbn [eval].
    apply (IHc x H Hx c' eq_refl st).
Qed.

Lemma inline_not_invalid : forall env e e', inline env e = Some e' -> fold env e <> CInvalid.
Proof.
  induction e as [w|n oq|o l IHl r IHr|o c IHc|c IHc]; intros e' Hi; cbn [fold inline] in *.
  - discriminate.
  - destruct (clookup env n) as [w|]; [|discriminate]. destruct oq as [q|]; [|discriminate].
    destruct (qual_eqb (tag w) q); discriminate.
  - destruct (inline env l) as [l'|] eqn:Il; [|discriminate].
    destruct (inline env r) as [r'|] eqn:Ir; [|discriminate].
    specialize (IHl l' eq_refl). specialize (IHr r' eq_refl).
    destruct (fold env l) as [a|y|]; try discriminate; [|contradiction].
    destruct (fold env r) as [b|y|]; try discriminate; [|contradiction].
    destruct (fold_binop o a b); discriminate.
  - destruct (inline env c) as [c'|] eqn:Ic; [|discriminate]. specialize (IHc c' eq_refl).
    destruct (fold env c) as [a|y|]; try discriminate; [|contradiction].
    destruct o; [destruct (negate a)|destruct (unary_not a)]; discriminate.
  - destruct (inline env c) as [c'|] eqn:Ic; [|discriminate]. apply (IHc c' eq_refl).
Qed.

(** rejected for an error exactly when run-time evaluation raises it (Type mismatch aside) *)
Theorem rejected_iff : forall env e e' x st, inline env e = Some e' -> x <> ETypeMismatch ->
  fold env e <> CErr ETypeMismatch ->
  (fold env e = CErr x <-> exists p, eval e' st = EErr x p).
Proof.
  intros env e e' x st Hi Hx Hn. split.
  - intros H. apply (fold_error env e x H Hx e' Hi st).
  - intros [p Hp]. destruct (fold env e) as [v|y|] eqn:F.
    + destruct (fold_value env e v F) as (e2 & I2 & E2). rewrite Hi in I2. inversion I2; subst e2.
      rewrite E2 in Hp. discriminate.
    + assert (Hy : y <> ETypeMismatch) by (intro; subst; contradiction).
      destruct (fold_error env e y F Hy e' Hi st) as [q Hq]. rewrite Hq in Hp. inversion Hp; subst. reflexivity.
    + exfalso. apply (inline_not_invalid env e e' Hi). exact F.
Qed.
