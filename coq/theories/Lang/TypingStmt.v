(** Type soundness for whole statements: a well-typed statement (the kind rules of [Typing.wt_stmt])
    executed from a state whose variables hold values of their own kind never ends with Type
    mismatch, and if it ends normally the variables still hold values of their own kind - for every
    statement of the core fragment, every nesting, every state and every fuel. *)
From Coq Require Import List ZArith Bool Floats.SpecFloat.
From RB Require Import Generated.Tables Val.Bits Val.Variant Val.VariantProofs Val.Arith2 Lang.Ast Lang.Sem Lang.Typing RT.Printer.
Import ListNotations.

(** every operator on two numbers: no Type mismatch, a number comes out *)
Lemma binop_numbers : forall o a b, is_str a = false -> is_str b = false -> num_result (binop o a b).
Proof.
  intros o a b Ha Hb.
  destruct o; cbn [binop];
    try (apply arith_num; assumption); try (apply divide_num; assumption);
    try (apply modulo_num; assumption); try (apply logical_num; assumption);
    (pose proof (try_cmp_same_kind a b) as T; rewrite Ha, Hb in T; specialize (T eq_refl);
     destruct (try_cmp a b) as [c|e]; [split; [unfold no_tm; discriminate|intros v H; inversion H; apply of_bool_num]
                                        |split; [intro H; inversion H; subst; apply T; reflexivity|discriminate]]).
Qed.

Lemma binop_same_kind_rel : forall o a b, is_rel o = true -> is_str a = is_str b ->
  no_tm (binop o a b) /\ forall v, binop o a b = Ok v -> is_str v = false.
Proof.
  intros o a b Ho Hk. pose proof (try_cmp_same_kind a b Hk) as T.
  destruct o; try discriminate Ho; cbn [binop];
    (destruct (try_cmp a b) as [c|e]; [split; [unfold no_tm; discriminate|intros v H; inversion H; apply of_bool_num]
                                       |split; [intro H; inversion H; subst; apply T; reflexivity|discriminate]]).
Qed.

Section WithNumberText.
Variable num_text : variant -> list Z.
Variable is_negative : variant -> bool.
Notation exec := (Sem.exec num_text is_negative).

Definition ok_outcome (o : outcome) : Prop :=
  match o with
  | Done st' => env_ok (vars st')
  | Failed x _ _ => x <> ETypeMismatch
  | _ => True
  end.

(** the block executor of [exec (S f)] *)
Definition blockf (f : nat) : list stmt -> state -> outcome :=
  fix block (l : list stmt) (st : state) : outcome :=
    match l with
    | [] => Done st
    | x :: t => match exec f x st with Done st' => block t st' | o => o end
    end.

Lemma blockf_nil f st : blockf f [] st = Done st.
Proof. reflexivity. Qed.
Lemma blockf_cons f x t st : blockf f (x :: t) st = match exec f x st with Done st' => blockf f t st' | o => o end.
Proof. reflexivity. Qed.

Definition wt_block (l : list stmt) : bool := forallb wt_stmt l.

Lemma wt_block_fix : forall l,
  (fix wt_block (l : list stmt) : bool := match l with [] => true | x :: t => wt_stmt x && wt_block t end) l = wt_block l.
Proof. induction l as [|x t IH]; cbn; [reflexivity|]. rewrite IH. reflexivity. Qed.

Lemma block_sound f : (forall s st, wt_stmt s = true -> env_ok (vars st) -> ok_outcome (exec f s st)) ->
  forall l st, wt_block l = true -> env_ok (vars st) -> ok_outcome (blockf f l st).
Proof.
  intros IH. induction l as [|x t IHl]; intros st Hw Hst; [rewrite blockf_nil; exact Hst|].
  rewrite blockf_cons. cbn [wt_block forallb] in Hw. apply andb_true_iff in Hw. destruct Hw as [Hx Ht].
  specialize (IH x st Hx Hst). destruct (exec f x st) as [st'| | |]; try exact IH.
  apply IHl; assumption.
Qed.

Lemma cond_sound c st p : kind_is c false = true -> env_ok (vars st) ->
  match cond c st p with
  | inl (_, st1) => env_ok (vars st1)
  | inr o => ok_outcome o
  end.
Proof.
  intros Hk Hst. unfold cond, kind_is in *. destruct (etype c) as [q|] eqn:Et; [|discriminate].
  apply Bool.eqb_prop in Hk.
  pose proof (eval_sound c q (vars st) Et Hst) as He. destruct (eval c (vars st)) as [v st1|x px]; [|exact He].
  destruct He as [Kv H1]. rewrite Hk in Kv. pose proof (truthy_sound v Kv) as T.
  destruct (truthy v) as [b|x]; cbn; [exact H1|]. intro Hx; subst; apply T; reflexivity.
Qed.

Lemma print_items_sound : forall args st d skip,
  forallb (fun a => match a with PExpr e => match etype e with Some _ => true | None => false end | _ => true end) args = true ->
  env_ok (vars st) ->
  match print_items num_text is_negative args st d skip with
  | inl (_, _, st') => env_ok st'
  | inr (x, _, _, st') => x <> ETypeMismatch /\ env_ok st'
  end.
Proof.
  induction args as [|a args IH]; intros st d skip Hw Hst; cbn [print_items]; [exact Hst|].
  cbn [forallb] in Hw. apply andb_true_iff in Hw. destruct Hw as [Ha Hr].
  destruct a as [| |e]; [apply IH; assumption|apply IH; assumption|].
  destruct (etype e) as [q|] eqn:Et; [|discriminate].
  pose proof (eval_sound e q (vars st) Et Hst) as He. destruct (eval e (vars st)) as [v st1|x px].
  - destruct He as [_ H1]. apply IH; [exact Hr|exact H1].
  - split; [exact He|exact Hst].
Qed.

(** the value used by FOR for a bound or the step: a number of the counter's type, or an error that is not Type mismatch *)
Lemma conv_sound (q : qual) e st : is_str_q q = false -> kind_is e false = true -> env_ok (vars st) ->
  match (match eval e (vars st) with
         | EErr x q0 => inr (Failed x q0 st)
         | EVal w st' =>
             match convert_to q e w with
             | Ok w' => inl (w', mk_state st' (screen st))
             | Err x => inr (Failed x (epos e) (mk_state st' (screen st)))
             end
         end) with
  | inl (w, st1) => is_str w = false /\ env_ok (vars st1)
  | inr o => ok_outcome o
  end.
Proof.
  intros Hq Hk Hst. unfold kind_is in Hk. destruct (etype e) as [qs|] eqn:Et; [|discriminate].
  apply Bool.eqb_prop in Hk.
  pose proof (eval_sound e qs (vars st) Et Hst) as He. destruct (eval e (vars st)) as [v st1|x px]; [|exact He].
  destruct He as [Kv H1]. unfold convert_to. rewrite Et.
  assert (Hkk : is_str_q q = is_str_q qs) by congruence.
  destruct (store_sound q qs v Hkk Kv) as [N K].
  destruct (store q qs v) as [w|x]; cbn.
  - split; [rewrite (K w eq_refl); exact Hq|exact H1].
  - intro Hx; subst; apply N; reflexivity.
Qed.

Lemma lookup_kind st n : env_ok st -> is_str_q (snd n) = false -> is_str (lookup st n) = false.
Proof. intros H Hn. rewrite (H n). exact Hn. Qed.

(** the comparisons of one CASE item *)
Lemma cmp_case_sound subject c st p q : is_str subject = is_str_q q -> wt_case (is_str_q q) c = true -> env_ok st ->
  match cmp_case subject c st p with
  | inl (_, st') => env_ok st'
  | inr (x, _) => x <> ETypeMismatch
  end.
Proof.
  intros Hs Hw Hst.
  assert (T : forall op e st0, is_rel op = true -> kind_is e (is_str_q q) = true -> env_ok st0 ->
    match (match eval e st0 with
           | EVal v st' => match binop op subject v with
                           | Ok r => match truthy r with Ok b => inl (b, st') | Err x => inr (x, p) end
                           | Err x => inr (x, p)
                           end
           | EErr x q0 => inr (x, q0)
           end) with
    | inl (_, st') => env_ok st'
    | inr (x, _) => x <> ETypeMismatch
    end).
  { intros op e st0 Ho Hk H0. unfold kind_is in Hk. destruct (etype e) as [qe|] eqn:Et; [|discriminate].
    apply Bool.eqb_prop in Hk.
    pose proof (eval_sound e qe st0 Et H0) as He. destruct (eval e st0) as [v st1|x px]; [|exact He].
    destruct He as [Kv H1].
    assert (Hsame : is_str subject = is_str v) by congruence.
    destruct (binop_same_kind_rel op subject v Ho Hsame) as [N K].
    destruct (binop op subject v) as [r|x]; [|intro Hx; subst; apply N; reflexivity].
    pose proof (truthy_sound r (K r eq_refl)) as Tr.
    destruct (truthy r) as [b|x]; [exact H1|intro Hx; subst; apply Tr; reflexivity]. }
  destruct c as [e|op e|lo hi]; cbn [cmp_case wt_case] in *.
  - apply T; [reflexivity|exact Hw|exact Hst].
  - apply andb_true_iff in Hw. destruct Hw as [Ho Hk]. apply T; assumption.
  - apply andb_true_iff in Hw. destruct Hw as [Hlo Hhi].
    pose proof (T GreaterOrEqual lo st eq_refl Hlo Hst) as T1.
    destruct (match eval lo st with EVal v st' => _ | EErr x q0 => _ end) as [[b st1]|[x px]]; [|exact T1].
    destruct b; [|exact T1]. apply T; [reflexivity|exact Hhi|exact T1].
Qed.

Lemma any_case_sound subject q p : forall cs st, is_str subject = is_str_q q -> forallb (wt_case (is_str_q q)) cs = true -> env_ok st ->
  match any_case subject cs st p with
  | inl (_, st') => env_ok st'
  | inr (x, _) => x <> ETypeMismatch
  end.
Proof.
  induction cs as [|c cs IH]; intros st Hs Hw Hst; cbn [any_case]; [exact Hst|].
  cbn [forallb] in Hw. apply andb_true_iff in Hw. destruct Hw as [Hc Hr].
  pose proof (cmp_case_sound subject c st p q Hs Hc Hst) as C.
  destruct (cmp_case subject c st p) as [[b st1]|[x px]]; [|exact C].
  destruct b; [exact C|]. apply IH; assumption.
Qed.

Lemma eval_items_sound : forall items st,
  forallb (fun e => match etype e with Some _ => true | None => false end) items = true -> env_ok st ->
  match eval_items items st with
  | inl (_, st') => env_ok st'
  | inr (x, _) => x <> ETypeMismatch
  end.
Proof.
  induction items as [|e t IH]; intros st Hw Hst; cbn [eval_items]; [exact Hst|].
  cbn [forallb] in Hw. apply andb_true_iff in Hw. destruct Hw as [He Ht].
  destruct (etype e) as [q|] eqn:Et; [|discriminate].
  pose proof (eval_sound e q st Et Hst) as S. destruct (eval e st) as [v st1|x px]; [|exact S].
  destruct S as [_ S1]. specialize (IH st1 Ht S1). destruct (eval_items t st1) as [[vs e']|[x q0]]; exact IH.
Qed.

Theorem exec_sound : forall f s st, wt_stmt s = true -> env_ok (vars st) -> ok_outcome (exec f s st).
Proof.
  induction f as [|f IH]; intros s st Hw Hst; [exact I|].
  pose proof (block_sound f IH) as B.
  destruct s as [p n e|p args|p c thn elifs els|p c body|p top until c body|p v lo hi step body|p e cases els|p items|p targets].
  - (* assignment *) apply (assignment_sound num_text is_negative f p n e st Hw Hst).
  - (* PRINT *)
    cbn [Sem.exec]. cbn [wt_stmt] in Hw.
    pose proof (print_items_sound args st (scr (screen st)) false Hw Hst) as P.
    destruct (print_items num_text is_negative args st (scr (screen st)) false) as [[[d sk] st1]|[[[x q] d] st1]]; cbn; [exact P|exact (proj1 P)].
  - (* IF *)
    cbn [wt_stmt] in Hw. rewrite !wt_block_fix in Hw.
    apply andb_true_iff in Hw. destruct Hw as [Hw Hels]. apply andb_true_iff in Hw. destruct Hw as [Hw Helifs].
    apply andb_true_iff in Hw. destruct Hw as [Hc Hthn].
    cbn [Sem.exec].
    pose proof (cond_sound c st p Hc Hst) as C. destruct (cond c st p) as [[b st1]|o]; [|exact C].
    destruct b; [change ((fix block (l : list stmt) (st0 : state) : outcome := match l with [] => Done st0 | x :: t => match exec f x st0 with Done st' => block t st' | o => o end end) thn st1) with (blockf f thn st1); apply B; assumption|].
    revert st1 C. induction elifs as [|[c' b'] t IHt]; intros st1 C.
    + destruct els as [b|]; [|exact C].
      change ((fix block (l : list stmt) (st0 : state) : outcome := match l with [] => Done st0 | x :: t => match exec f x st0 with Done st' => block t st' | o => o end end) b st1) with (blockf f b st1).
      rewrite wt_block_fix in Hels. apply B; assumption.
    + rewrite wt_block_fix in Helifs. apply andb_true_iff in Helifs. destruct Helifs as [H1 Hrest].
      apply andb_true_iff in H1. destruct H1 as [Hc' Hb'].
      pose proof (cond_sound c' st1 p Hc' C) as C'. destruct (cond c' st1 p) as [[b2 st2]|o]; [|exact C'].
      destruct b2.
      * change ((fix block (l : list stmt) (st0 : state) : outcome := match l with [] => Done st0 | x :: t => match exec f x st0 with Done st' => block t st' | o => o end end) b' st2) with (blockf f b' st2).
        apply B; assumption.
      * apply IHt; [exact Hrest|exact C'].
  - (* WHILE *)
    cbn [wt_stmt] in Hw. rewrite wt_block_fix in Hw. apply andb_true_iff in Hw. destruct Hw as [Hc Hb].
    cbn [Sem.exec].
    pose proof (cond_sound c st p Hc Hst) as C. destruct (cond c st p) as [[b st1]|o]; [|exact C].
    destruct b; [|exact C].
    change ((fix block (l : list stmt) (st0 : state) : outcome := match l with [] => Done st0 | x :: t => match exec f x st0 with Done st' => block t st' | o => o end end) body st1) with (blockf f body st1).
    pose proof (B body st1 Hb C) as Bb. destruct (blockf f body st1) as [st2| | |]; try exact Bb.
    apply IH; [cbn [wt_stmt]; rewrite wt_block_fix, Hc, Hb; reflexivity|exact Bb].
  - (* DO *)
    cbn [wt_stmt] in Hw. rewrite wt_block_fix in Hw. apply andb_true_iff in Hw. destruct Hw as [Hc Hb].
    assert (Hself : wt_stmt (SDo p top until c body) = true) by (cbn [wt_stmt]; rewrite wt_block_fix, Hc, Hb; reflexivity).
    assert (T : forall s0 : state, env_ok (vars s0) ->
      match (match eval c (vars s0) with
             | EErr x q => inr (Failed x q s0)
             | EVal v st' =>
                 let s' := mk_state st' (screen s0) in
                 match (if until then unary_not v else Ok v) with
                 | Err x => inr (Failed x p s')
                 | Ok w => match truthy w with Ok b => inl (b, s') | Err x => inr (Failed x p s') end
                 end
             end) with
      | inl (_, s1) => env_ok (vars s1)
      | inr o => ok_outcome o
      end).
    { intros s0 H0. unfold kind_is in Hc. destruct (etype c) as [q|] eqn:Et; [|discriminate].
      apply Bool.eqb_prop in Hc.
      pose proof (eval_sound c q (vars s0) Et H0) as He. destruct (eval c (vars s0)) as [v st1|x px]; [|exact He].
      destruct He as [Kv H1]. rewrite Hc in Kv. cbv zeta.
      assert (Hw' : exists w, (if until then unary_not v else Ok v) = Ok w /\ is_str w = false).
      { destruct until; [|exists v; split; [reflexivity|exact Kv]].
        destruct v; try discriminate Kv; cbn [unary_not]; eexists; split; reflexivity. }
      destruct Hw' as (w & Ew & Kw). rewrite Ew. pose proof (truthy_sound w Kw) as Tw.
      destruct (truthy w) as [b|x]; cbn; [exact H1|intro Hx; subst; apply Tw; reflexivity]. }
    cbn [Sem.exec]. destruct top.
    + pose proof (T st Hst) as T1.
      destruct (match eval c (vars st) with EErr x q => _ | EVal v st' => _ end) as [[b st1]|o]; [|exact T1].
      destruct b; [|exact T1].
      change ((fix block (l : list stmt) (st0 : state) : outcome := match l with [] => Done st0 | x :: t => match exec f x st0 with Done st' => block t st' | o => o end end) body st1) with (blockf f body st1).
      pose proof (B body st1 Hb T1) as Bb. destruct (blockf f body st1) as [st2| | |]; try exact Bb.
      apply IH; assumption.
    + change ((fix block (l : list stmt) (st0 : state) : outcome := match l with [] => Done st0 | x :: t => match exec f x st0 with Done st' => block t st' | o => o end end) body st) with (blockf f body st).
      pose proof (B body st Hb Hst) as Bb. destruct (blockf f body st) as [st1| | |]; try exact Bb.
      pose proof (T st1 Bb) as T1.
      destruct (match eval c (vars st1) with EErr x q => _ | EVal v st' => _ end) as [[b st2]|o]; [|exact T1].
      destruct b; [|exact T1]. apply IH; assumption.
  - (* FOR *)
    cbn [wt_stmt] in Hw. rewrite wt_block_fix in Hw.
    apply andb_true_iff in Hw. destruct Hw as [Hw Hb]. apply andb_true_iff in Hw. destruct Hw as [Hw Hstep].
    apply andb_true_iff in Hw. destruct Hw as [Hw Hhi]. apply andb_true_iff in Hw. destruct Hw as [Hv Hlo].
    apply negb_true_iff in Hv.
    assert (Hstep' : forall se, step = Some se -> kind_is se false = true) by (intros se E; subst step; exact Hstep).
    clear Hstep.
    cbn [Sem.exec].
    pose proof (conv_sound (snd v) lo st Hv Hlo Hst) as C1.
    destruct (match eval lo (vars st) with EErr x q0 => _ | EVal w st' => _ end) as [[lo_v st1]|o]; [|exact C1].
    destruct C1 as [Klo H1].
    assert (H1' : env_ok (vars (mk_state (assign (touch (vars st1) v) v lo_v) (screen st1)))).
    { cbn [vars]. apply assign_ok; [apply touch_ok; exact H1|rewrite Klo, Hv; reflexivity]. }
    pose proof (conv_sound (snd v) hi _ Hv Hhi H1') as C2.
    destruct (match eval hi (vars _) with EErr x q0 => _ | EVal w st' => _ end) as [[hi_v st2]|o]; [|exact C2].
    destruct C2 as [Khi H2].
    assert (C3 : match (match step with Some se =>
                    match eval se (vars st2) with
                    | EErr x q0 => inr (Failed x q0 st2)
                    | EVal w st' => match convert_to (snd v) se w with
                                    | Ok w' => inl (w', mk_state st' (screen st2))
                                    | Err x => inr (Failed x (epos se) (mk_state st' (screen st2)))
                                    end
                    end
                  | None => inl (VInteger 1, st2) end) with
                | inl (w, st3) => is_str w = false /\ env_ok (vars st3)
                | inr o => ok_outcome o
                end).
    { destruct step as [se|]; [apply conv_sound; [exact Hv|apply Hstep'; reflexivity|exact H2]|split; [reflexivity|exact H2]]. }
    destruct (match step with Some se => _ | None => _ end) as [[step_v st3]|o]; [|exact C3].
    destruct C3 as [Kst H3].
    destruct (binop_numbers NotEqual step_v (VInteger 0) Kst eq_refl) as [N1 K1].
    destruct (binop NotEqual step_v (VInteger 0)) as [nz|x]; [|cbn; intro Hx; subst; apply N1; reflexivity].
    pose proof (truthy_sound nz (K1 nz eq_refl)) as Tnz.
    destruct (truthy nz) as [[|]|x]; [|exact I|cbn; intro Hx; subst; apply Tnz; reflexivity].
    (* the loop: its sign test does not depend on the iteration *)
    assert (Neg : exists negv, (match step with None => Ok (of_bool false) | Some _ => binop Less step_v (VInteger 0) end) = Ok negv /\ is_str negv = false
                  \/ exists x, (match step with None => Ok (of_bool false) | Some _ => binop Less step_v (VInteger 0) end) = Err x /\ x <> ETypeMismatch).
    { destruct step as [se|].
      - destruct (binop_numbers Less step_v (VInteger 0) Kst eq_refl) as [N2 K2].
        destruct (binop Less step_v (VInteger 0)) as [w|x].
        + exists w. left. split; [reflexivity|apply K2; reflexivity].
        + exists (VInteger 0). right. exists x. split; [reflexivity|intro Hx; subst; apply N2; reflexivity].
      - exists (of_bool false). left. split; reflexivity. }
    destruct Neg as (negv & [[En Kn]|(x & En & Hx)]); rewrite En.
    2:{ destruct f as [|n]; [exact I|]. exact Hx. }
    pose proof (truthy_sound negv Kn) as Tn.
    destruct (truthy negv) as [isneg|x].
    2:{ destruct f as [|n]; [exact I|]. cbn. intro Hx; subst; apply Tn; reflexivity. }
    match goal with |- ok_outcome (?loopf _ _) =>
      assert (HL : forall n s3, env_ok (vars s3) -> ok_outcome (loopf n s3)); [|apply HL; exact H3] end.
    clear st3 H3. induction n as [|n IHn]; intros st3 H3; [exact I|].
    Opaque binop truthy lookup assign of_bool touch.
    cbn beta iota fix zeta. cbn [vars screen].
    Transparent binop truthy lookup assign of_bool touch.
    (* the state with the counter read *)
    assert (H3t : env_ok (touch (vars st3) v)) by (apply touch_ok; exact H3).
    set (e3 := touch (vars st3) v) in *.
    assert (Kcur : is_str (lookup e3 v) = false) by (apply lookup_kind; assumption).
    destruct (binop_numbers (if isneg then GreaterOrEqual else LessOrEqual) (lookup e3 v) hi_v Kcur Khi) as [N3 K3].
    destruct (binop (if isneg then GreaterOrEqual else LessOrEqual) (lookup e3 v) hi_v) as [t|x]; [|cbn; intro Hx; subst; apply N3; reflexivity].
    pose proof (truthy_sound t (K3 t eq_refl)) as Tt.
    destruct (truthy t) as [[|]|x]; [|exact H3t|cbn; intro Hx; subst; apply Tt; reflexivity].
    change ((fix block (l : list stmt) (st0 : state) : outcome := match l with [] => Done st0 | x :: t => match exec f x st0 with Done st' => block t st' | o => o end end) body (mk_state e3 (screen st3))) with (blockf f body (mk_state e3 (screen st3))).
    pose proof (B body (mk_state e3 (screen st3)) Hb H3t) as Bb. destruct (blockf f body (mk_state e3 (screen st3))) as [st4| | |]; try exact Bb.
    assert (H4t : env_ok (touch (vars st4) v)) by (apply touch_ok; exact Bb).
    set (e4 := touch (vars st4) v) in *.
    assert (Kc4 : is_str (lookup e4 v) = false) by (apply lookup_kind; assumption).
    destruct (binop_numbers Plus (lookup e4 v) step_v Kc4 Kst) as [N4 K4].
    destruct (binop Plus (lookup e4 v) step_v) as [nv|x]; [|cbn; intro Hx; subst; apply N4; reflexivity].
    apply IHn. cbn [vars]. apply assign_ok; [exact H4t|rewrite (K4 nv eq_refl), Hv; reflexivity].
  - (* SELECT CASE *)
    cbn [wt_stmt] in Hw. destruct (etype e) as [q|] eqn:Et; [|discriminate].
    apply andb_true_iff in Hw. destruct Hw as [Hcases Hels].
    cbn [Sem.exec].
    pose proof (eval_sound e q (vars st) Et Hst) as He. destruct (eval e (vars st)) as [subject st0|x px]; [|exact He].
    destruct He as [Ks H0].
    assert (G : forall l s0, env_ok (vars s0) ->
      (fix go (l : list (list case_expr * list stmt)) : bool :=
         match l with [] => true | (cs, b) :: t => forallb (wt_case (is_str_q q)) cs && (fix wt_block (l0 : list stmt) : bool := match l0 with [] => true | x :: t0 => wt_stmt x && wt_block t0 end) b && go t end) l = true ->
      ok_outcome ((fix pick (l : list (list case_expr * list stmt)) (st1 : state) : outcome :=
         match l with
         | [] => match els with Some b => (fix block (l0 : list stmt) (st2 : state) : outcome := match l0 with [] => Done st2 | x :: t => match exec f x st2 with Done st' => block t st' | o => o end end) b st1 | None => Done st1 end
         | (cs, b) :: t =>
             match any_case subject cs (vars st1) p with
             | inr (x, q0) => Failed x q0 st1
             | inl (true, st') => (fix block (l0 : list stmt) (st2 : state) : outcome := match l0 with [] => Done st2 | x :: t0 => match exec f x st2 with Done st'0 => block t0 st'0 | o => o end end) b (mk_state st' (screen st1))
             | inl (false, st') => pick t (mk_state st' (screen st1))
             end
         end) l s0)).
    { induction l as [|[cs b] t IHt]; intros s0 Hs0 Hl.
      - destruct els as [b|]; [|exact Hs0].
        change ((fix block (l0 : list stmt) (st2 : state) : outcome := match l0 with [] => Done st2 | x :: t => match exec f x st2 with Done st' => block t st' | o => o end end) b s0) with (blockf f b s0).
        rewrite wt_block_fix in Hels. apply B; assumption.
      - apply andb_true_iff in Hl. destruct Hl as [Hl Ht]. apply andb_true_iff in Hl. destruct Hl as [Hcs Hb].
        rewrite wt_block_fix in Hb.
        pose proof (any_case_sound subject q p cs (vars s0) Ks Hcs Hs0) as A.
        destruct (any_case subject cs (vars s0) p) as [[bb st']|[x px]]; [|exact A].
        destruct bb.
        + change ((fix block (l0 : list stmt) (st2 : state) : outcome := match l0 with [] => Done st2 | x :: t0 => match exec f x st2 with Done st'0 => block t0 st'0 | o => o end end) b (mk_state st' (screen s0))) with (blockf f b (mk_state st' (screen s0))).
          apply B; [exact Hb|exact A].
        + apply IHt; [exact A|exact Ht]. }
    apply G; [exact H0|exact Hcases].
  - (* DATA *)
    cbn [Sem.exec]. cbn [wt_stmt] in Hw.
    pose proof (eval_items_sound items (vars st) Hw Hst) as P.
    destruct (eval_items items (vars st)) as [[vs e']|[x q]]; cbn; exact P.
  - (* READ is outside the statement *)
    discriminate Hw.
Qed.

(** whole programs *)
Theorem program_sound : forall f p st, wt_program p = true -> env_ok (vars st) ->
  ok_outcome (Sem.exec_program num_text is_negative f p st).
Proof.
  intros f. induction p as [|s p IH]; intros st Hw Hst; cbn [Sem.exec_program]; [exact Hst|].
  unfold wt_program in Hw. cbn [forallb] in Hw. apply andb_true_iff in Hw. destruct Hw as [Hs Hp].
  pose proof (exec_sound f s st Hs Hst) as E. destruct (exec f s st) as [st'| | |]; try exact E.
  apply IH; assumption.
Qed.

End WithNumberText.
