(** Decimal text of numbers as PRINT shows them (Rust Display), on the exactly printable domain:
    whole numbers (any INTEGER/LONG; floats below 2^24 / 2^53) and multiples of 1/8. Outside the
    domain the text is the poison byte 255 (the case is then skipped by the correspondence). *)
From Coq Require Import List ZArith Bool Floats.SpecFloat.
From RB Require Import Val.Variant RT.Strings.
Import ListNotations.
Open Scope Z_scope.

Definition poison : list Z := [255].

(** strip factors of two from the mantissa of a negative-exponent float *)
Fixpoint normalize_me (fuel : nat) (m e : Z) : Z * Z :=
  match fuel with
  | O => (m, e)
  | S f => if (e <? 0) && Z.even m then normalize_me f (m / 2) (e + 1) else (m, e)
  end.

Definition float_text (single : bool) (f : spec_float) : list Z :=
  match f with
  | S754_zero s => if s then [45; 48] else [48]
  | S754_finite _ m e =>
      let '(m', e') := normalize_me 64 (Zpos m) e in
      let limit := if single then 2 ^ 24 else 2 ^ 53 in
      if 0 <=? e' then
        let z := m' * 2 ^ e' in
        if z <? limit then dec_digits 25 z else poison
      else if (-3 <=? e') && (m' <? 2 ^ 23) then
        let k := - e' in
        let scaled := m' * 5 ^ k in             (* value = scaled / 10^k *)
        let ip := scaled / 10 ^ k in
        let fp := scaled mod 10 ^ k in
        let fdigits := dec_digits 25 fp in
        let pad := repeat 48 (Z.to_nat k - length fdigits) in
        (* a SINGLE is shown with the fewest digits that identify it: beyond 6 significant digits
           that may be fewer than the exact expansion (1499997.75 is shown as 1499997.8) *)
        if single && Nat.ltb 6 (length (dec_digits 25 ip) + Z.to_nat k) then poison
        else dec_digits 25 ip ++ [46] ++ pad ++ fdigits
      else poison
  | _ => poison
  end.

Definition num_text (v : variant) : list Z :=
  match v with
  | VInteger z | VLong z => dec_digits 25 (Z.abs z)
  | VSingle f => float_text true f
  | VDouble f => float_text false f
  | VString _ => []
  end.

(** PRINT writes a minus sign for negative numbers, else a blank ([f >= 0.0], true for -0.0) *)
Definition is_negative (v : variant) : bool :=
  match v with
  | VInteger z | VLong z => z <? 0
  | VSingle (S754_finite s _ _) | VDouble (S754_finite s _ _) => s
  | _ => false
  end.

Definition has_poison (s : list Z) : bool := existsb (Z.eqb 255) s.
