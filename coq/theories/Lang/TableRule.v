(** The checker's table of static types of binary operators, dumped from its own code on every run
    ([Generated.Tables.cast_binary_op]), is the language rule the models use ([Ast.spec_binary_op]).
    Kept in a file of its own: when a change to the checker breaks it, the models still build and
    the runs find the programs that now behave differently. *)
From RB Require Import Generated.Tables Lang.Ast.

Theorem cast_binary_op_is_the_rule : forall l r op, cast_binary_op l r op = spec_binary_op l r op.
Proof. intros l r op. destruct l, r, op; reflexivity. Qed.
