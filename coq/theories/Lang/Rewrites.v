(** Rewrite rules of C02 as theorems about the reference semantics [Sem]: the rewritten statement
    has the same outcome (state, output, error and its position) as the original, for every state
    and every fuel. *)
From Coq Require Import List ZArith Bool Lia Floats.SpecFloat.
From RB Require Import Generated.Tables Val.Variant Val.Arith2 Lang.Ast Lang.Sem RT.Printer.
Import ListNotations.

Section WithNumberText.
Variable num_text : variant -> list Z.
Variable is_negative : variant -> bool.
Notation exec := (Sem.exec num_text is_negative).

(** the statement-list executor that [exec (S f)] uses for blocks *)
Fixpoint block (f : nat) (l : list stmt) (st : state) : outcome :=
  match l with
  | [] => Done st
  | x :: t => match exec f x st with Done st' => block f t st' | o => o end
  end.

(** WHILE c ... WEND  =  DO WHILE c ... LOOP *)
Theorem while_as_do_while : forall f p c body st,
  exec f (SWhile p c body) st = exec f (SDo p true false c body) st.
Proof.
  induction f as [|f IH]; intros p c body st; [reflexivity|].
  cbn [Sem.exec]. unfold cond.
  destruct (eval c (vars st)) as [v st'|x q]; [|reflexivity].
  destruct (truthy v) as [[|]|x]; try reflexivity.
  match goal with |- match ?b with _ => _ end = match ?b' with _ => _ end => change b' with b; destruct b end;
    try reflexivity.
  apply IH.
Qed.

(** a block wrapped in IF -1 THEN ... END IF *)
Theorem if_true_wrap : forall f p q body st,
  exec (S f) (SIf p (ELit q (VInteger (-1))) body [] None) st = block f body st.
Proof.
  intros. destruct st as [vs sc]. cbn [Sem.exec]. unfold cond. cbn [eval vars screen].
  replace (truthy (VInteger (-1))) with (Ok true) by reflexivity. cbv iota beta.
  generalize (mk_state vs sc). induction body as [|x t IHt]; intros st0; cbn [block]; [reflexivity|].
  destruct (exec f x st0); try reflexivity. apply IHt.
Qed.


(** DO ... UNTIL c  =  DO ... WHILE NOT c, whenever NOT cannot fail on the value of c (true of every
    comparison, see [comparison_not_ok]); the NOT expression carries the statement's position *)
Definition not_never_fails (c : expr) : Prop :=
  forall st v st', eval c st = EVal v st' -> exists w, unary_not v = Ok w.

Theorem do_until_as_do_while_not : forall f p top c body st,
  not_never_fails c ->
  exec f (SDo p top true c body) st = exec f (SDo p top false (EUn p UNot c) body) st.
Proof.
  induction f as [|f IH]; intros p top c body st Hc; [reflexivity|].
  cbn [Sem.exec].
  assert (T : forall s0 : state,
    match eval c (vars s0) with
    | EErr x q => inr (Failed x q s0)
    | EVal v st' =>
        match unary_not v with
        | Err x => inr (Failed x p (mk_state st' (screen s0)))
        | Ok w => match truthy w with Ok b => inl (b, mk_state st' (screen s0)) | Err x => inr (Failed x p (mk_state st' (screen s0))) end
        end
    end =
    match eval (EUn p UNot c) (vars s0) with
    | EErr x q => inr (Failed x q s0)
    | EVal v st' =>
        match Ok v with
        | Err x => inr (Failed x p (mk_state st' (screen s0)))
        | Ok w => match truthy w with Ok b => inl (b, mk_state st' (screen s0)) | Err x => inr (Failed x p (mk_state st' (screen s0))) end
        end
    end).
  { intros s0. cbn [eval]. destruct (eval c (vars s0)) as [v st'|x q] eqn:E; [|reflexivity].
    destruct (Hc _ _ _ E) as [w Hw]. rewrite Hw. reflexivity. }
  destruct top.
  - rewrite <- T. destruct (eval c (vars st)) as [v st'|x q]; [|reflexivity].
    destruct (unary_not v) as [w|x]; [|reflexivity].
    destruct (truthy w) as [[|]|x]; try reflexivity.
    match goal with |- match ?b with _ => _ end = match ?b' with _ => _ end => change b' with b; destruct b end;
      try reflexivity.
    apply IH. exact Hc.
  - match goal with |- match ?b with _ => _ end = match ?b' with _ => _ end => change b' with b; destruct b as [s1| | |] end;
      try reflexivity.
    rewrite <- T. destruct (eval c (vars s1)) as [v st'|x q]; [|reflexivity].
    destruct (unary_not v) as [w|x]; [|reflexivity].
    destruct (truthy w) as [[|]|x]; try reflexivity.
    apply IH. exact Hc.
Qed.

Definition is_relational (o : bop) : bool :=
  match o with Less | LessOrEqual | Equal | GreaterOrEqual | Greater | NotEqual => true | _ => false end.

Lemma comparison_not_ok : forall p o l r, is_relational o = true -> not_never_fails (EBin p o l r).
Proof.
  intros p o l r Ho st v st' H. cbn [eval] in H.
  destruct (eval l st) as [a st1|]; [|discriminate].
  destruct (eval r st1) as [b st2|]; [|discriminate].
  destruct (binop o a b) as [w|] eqn:Eb; [|discriminate]. inversion H; subst w st2.
  unfold binop in Eb. destruct o; try discriminate;
    (destruct (try_cmp a b) as [cmp|]; [|discriminate]; inversion Eb; unfold of_bool;
     match goal with |- context [if ?x then _ else _] => destruct x end; eexists; reflexivity).
Qed.


(** FOR without STEP  =  FOR ... STEP 1, for a counter of type INTEGER *)
Theorem for_default_step_is_one : forall f p v lo hi q body st,
  snd v = QInteger ->
  exec f (SFor p v lo hi None body) st = exec f (SFor p v lo hi (Some (ELit q (VInteger 1))) body) st.
Proof.
  destruct f as [|f]; intros p v lo hi q body st Hv; [reflexivity|].
  cbn [Sem.exec]. rewrite Hv.
  match goal with |- match ?b with _ => _ end = match ?b' with _ => _ end => change b' with b; destruct b as [[lo_v st1]|o] end;
    [|reflexivity].
  match goal with |- match ?b with _ => _ end = match ?b' with _ => _ end => change b' with b; destruct b as [[hi_v st2]|o] end;
    [|reflexivity].
  destruct st2 as [vs2 sc2].
  cbn [eval vars screen]. unfold convert_to at 1. cbn [etype tag store].
  cbv iota beta.
  replace (binop NotEqual (VInteger 1) (VInteger 0)) with (Ok (VInteger (-1))) by reflexivity.
  cbv iota beta. replace (truthy (VInteger (-1))) with (Ok true) by reflexivity. cbv iota beta.
  replace (binop Less (VInteger 1) (VInteger 0)) with (Ok (of_bool false)) by reflexivity.
  reflexivity.
Qed.
End WithNumberText.
