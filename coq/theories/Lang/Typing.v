(** Type soundness of the reference semantics with respect to the checker's typing of expressions
    ([Ast.etype], built on the generated table [spec_binary_op]): an expression that has a static
    type never raises Type mismatch, and its value is of the kind (number / string) of that type,
    in every state whose variables hold values of their own kind. *)
From Coq Require Import List ZArith Bool Floats.SpecFloat.
From RB Require Import Generated.Tables Val.Bits Val.Variant Val.VariantProofs Val.Arith2 Lang.Ast Lang.Sem.
Import ListNotations.

Definition is_str_q (q : qual) : bool := match q with QString => true | _ => false end.
Definition is_str (v : variant) : bool := match v with VString _ => true | _ => false end.

(** every variable holds a value of its own kind *)
Definition env_ok (st : env) : Prop := forall n, is_str (lookup st n) = is_str_q (snd n).

Definition is_rel (o : bop) : bool :=
  match o with Less | LessOrEqual | Equal | GreaterOrEqual | Greater | NotEqual => true | _ => false end.

(** what the generated table admits *)
Lemma cbo_kinds : forall a b o q, spec_binary_op a b o = Some q ->
  (is_str_q a = false /\ is_str_q b = false /\ is_str_q q = false) \/
  (is_str_q a = true /\ is_str_q b = true /\ ((o = Plus /\ is_str_q q = true) \/ (is_rel o = true /\ is_str_q q = false))).
Proof.
  intros a b o q. destruct a, b, o; vm_compute; intros H; inversion H; subst; auto 10.
Qed.

Lemma fit_z_num z : is_str (fit_z z) = false.
Proof. unfold fit_z. destruct (in_int z); [reflexivity|]. destruct (in_long z); reflexivity. Qed.

Lemma fit_float_num s f : is_str (fit_float s f) = false.
Proof.
  unfold fit_float. destruct (sf_gt _ _); [destruct s; reflexivity|].
  destruct (round_half_away f) as [z|]; [|destruct s; reflexivity].
  destruct (in_long z); [apply fit_z_num|destruct s; reflexivity].
Qed.

Definition no_tm {A} (r : vres A) : Prop := r <> Err ETypeMismatch.
Definition num_result (r : vres variant) : Prop := no_tm r /\ forall v, r = Ok v -> is_str v = false.

Lemma divide_num a b : is_str a = false -> is_str b = false -> num_result (divide a b).
Proof.
  intros Ha Hb. destruct a as [x|x|x|x|x]; try discriminate Ha; destruct b as [y|y|y|y|y]; try discriminate Hb;
    unfold divide; cbn [approx_zero is_double to_double to_single orb];
    match goal with |- num_result (match ?c with _ => _ end) => destruct c end;
    (split; [unfold no_tm; discriminate|]); intros v H; inversion H; try apply fit_float_num.
Qed.

Lemma vround_num a : is_str a = false -> num_result (vround a).
Proof.
  intros Ha. destruct a; try discriminate Ha; cbn [vround]; (split; [unfold no_tm; discriminate|]);
    intros v H; inversion H; try apply fit_float_num; reflexivity.
Qed.

Lemma modulo_num a b : is_str a = false -> is_str b = false -> num_result (modulo a b).
Proof.
  intros Ha Hb. unfold modulo.
  destruct (vround_num a Ha) as [Na Ka]. destruct (vround a) as [ra|e] eqn:Ea.
  2:{ split; [intro H; inversion H; subst; apply Na; reflexivity|discriminate]. }
  destruct (vround_num b Hb) as [Nb Kb]. destruct (vround b) as [rb|e] eqn:Eb.
  2:{ split; [intro H; inversion H; subst; apply Nb; reflexivity|discriminate]. }
  specialize (Ka ra eq_refl). specialize (Kb rb eq_refl).
  destruct ra; try discriminate Ka; destruct rb; try discriminate Kb; cbn [approx_zero];
    match goal with |- num_result (match ?c with _ => _ end) => destruct c end;
    (split; [unfold no_tm; discriminate|]); intros v H; inversion H; reflexivity.
Qed.

Lemma cast_integer_num a : is_str a = false ->
  no_tm (cast a QInteger) /\ forall v, cast a QInteger = Ok v -> exists z, v = VInteger z.
Proof.
  intros Ha. destruct a; try discriminate Ha; cbn [cast]; unfold float_to_int.
  - destruct (round_half_away f) as [r|]; [destruct (in_int r)|]; (split; [unfold no_tm; discriminate|]);
      intros v H; inversion H; eexists; reflexivity.
  - destruct (round_half_away f) as [r|]; [destruct (in_int r)|]; (split; [unfold no_tm; discriminate|]);
      intros v H; inversion H; eexists; reflexivity.
  - split; [unfold no_tm; discriminate|]. intros v H; inversion H; eexists; reflexivity.
  - destruct (in_int z); (split; [unfold no_tm; discriminate|]); intros v H; inversion H; eexists; reflexivity.
Qed.

Lemma logical_num f a b : is_str a = false -> is_str b = false -> num_result (logical f a b).
Proof.
  intros Ha Hb. unfold logical.
  destruct (cast_integer_num a Ha) as [Na Ka]. destruct (cast a QInteger) as [va|e] eqn:Ea.
  2:{ split; [intro H; inversion H; subst; apply Na; reflexivity|discriminate]. }
  destruct (Ka va eq_refl) as [x ->].
  destruct (cast_integer_num b Hb) as [Nb Kb]. destruct (cast b QInteger) as [vb|e] eqn:Eb.
  2:{ split; [intro H; inversion H; subst; apply Nb; reflexivity|discriminate]. }
  destruct (Kb vb eq_refl) as [y ->].
  split; [unfold no_tm; discriminate|]. intros v H; inversion H; reflexivity.
Qed.

Lemma try_cmp_same_kind a b : is_str a = is_str b -> no_tm (try_cmp a b).
Proof.
  intros H. destruct a as [x|x|x|x|x]; destruct b as [y|y|y|y|y]; try discriminate H;
    unfold try_cmp; cbn [is_double to_double to_single orb]; unfold no_tm; discriminate.
Qed.

Lemma arith_num o a b : is_str a = false -> is_str b = false -> num_result (arith o a b).
Proof.
  intros Ha Hb.
  assert (Na : numeric a = true) by (destruct a; try discriminate Ha; reflexivity).
  assert (Nb : numeric b = true) by (destruct b; try discriminate Hb; reflexivity).
  split.
  - destruct (arith_total o a b Na Nb) as [[v Hv]|He]; unfold no_tm; rewrite ?Hv, ?He; discriminate.
  - intros v Hv. destruct (arith_typed o a b v Na Nb Hv) as [Hbig _].
    destruct a; try discriminate Ha; destruct b; try discriminate Hb; destruct v; cbn in Hbig; try discriminate; reflexivity.
Qed.

Lemma of_bool_num b : is_str (of_bool b) = false.
Proof. destruct b; reflexivity. Qed.

(** binary operators on operands of the kinds the table admits *)
Lemma binop_sound : forall o a b qa qb q, spec_binary_op qa qb o = Some q ->
  is_str a = is_str_q qa -> is_str b = is_str_q qb ->
  no_tm (binop o a b) /\ forall v, binop o a b = Ok v -> is_str v = is_str_q q.
Proof.
  intros o a b qa qb q Hc Ha Hb.
  destruct (cbo_kinds _ _ _ _ Hc) as [(Ka & Kb & Kq)|(Ka & Kb & [(Ho & Kq)|(Ho & Kq)])];
    rewrite Ka in Ha; rewrite Kb in Hb; rewrite Kq.
  - (* numbers *)
    assert (R : num_result (binop o a b)).
    { destruct o; cbn [binop];
        try (apply arith_num; assumption); try (apply divide_num; assumption);
        try (apply modulo_num; assumption); try (apply logical_num; assumption);
        (pose proof (try_cmp_same_kind a b) as T; rewrite Ha, Hb in T; specialize (T eq_refl);
         destruct (try_cmp a b) as [c|e]; [split; [unfold no_tm; discriminate|intros v H; inversion H; apply of_bool_num]
                                            |split; [intro H; inversion H; subst; apply T; reflexivity|discriminate]]). }
    exact R.
  - (* string concatenation *)
    subst o. destruct a; try discriminate Ha. destruct b; try discriminate Hb. cbn.
    split; [unfold no_tm; discriminate|]. intros v H; inversion H; reflexivity.
  - (* string comparison *)
    destruct a; try discriminate Ha. destruct b; try discriminate Hb.
    destruct o; try discriminate Ho; cbn; (split; [unfold no_tm; discriminate|]); intros v H; inversion H; apply of_bool_num.
Qed.

Lemma touch_ok st n : env_ok st -> env_ok (touch st n).
Proof.
  intros H m. unfold touch. destruct (mem st n) eqn:E; [apply H|].
  specialize (H m). revert H. induction st as [|[k w] t IH]; cbn [app lookup].
  - intros _. destruct (name_eqb n m) eqn:En; [|cbn; destruct (snd m); reflexivity].
    unfold name_eqb in En. apply andb_true_iff in En. destruct En as [_ Eq].
    destruct (snd n), (snd m); try discriminate Eq; reflexivity.
  - cbn [mem existsb fst] in E. apply orb_false_iff in E. destruct E as [E1 E2].
    destruct (name_eqb k m); [intros H; exact H|]. intros H. apply IH; assumption.
Qed.

Lemma lookup_touch_kind st n : env_ok st -> is_str (lookup (touch st n) n) = is_str_q (snd n).
Proof. intros H. apply (touch_ok st n H). Qed.

(** ** expressions *)
Theorem eval_sound : forall e q st, etype e = Some q -> env_ok st ->
  match eval e st with
  | EVal v st' => is_str v = is_str_q q /\ env_ok st'
  | EErr x _ => x <> ETypeMismatch
  end.
Proof.
  induction e as [p v|p n|p o l IHl r IHr|p o c IHc|p c IHc]; intros q st Ht Hst; cbn [etype eval] in *.
  - inversion Ht; subst. split; [destruct v; reflexivity|exact Hst].
  - inversion Ht; subst. split; [apply lookup_touch_kind; exact Hst|apply touch_ok; exact Hst].
  - destruct (etype l) as [ql|]; [|discriminate]. destruct (etype r) as [qr|]; [|discriminate].
    specialize (IHl ql st eq_refl Hst). destruct (eval l st) as [a st1|x px]; [|exact IHl].
    destruct IHl as [Ka H1]. specialize (IHr qr st1 eq_refl H1). destruct (eval r st1) as [b st2|x px]; [|exact IHr].
    destruct IHr as [Kb H2]. destruct (binop_sound o a b ql qr q Ht Ka Kb) as [N K].
    destruct (binop o a b) as [v|x]; [split; [apply K; reflexivity|exact H2]|].
    intro Hx; subst; apply N; reflexivity.
  - destruct (etype c) as [qc|] eqn:Ec; [|discriminate].
    assert (Hq : qc = q /\ is_str_q q = false) by (destruct qc; inversion Ht; subst; split; reflexivity).
    destruct Hq as [-> Kq]. specialize (IHc q st eq_refl Hst). destruct (eval c st) as [a st1|x px]; [|exact IHc].
    destruct IHc as [Ka H1]. rewrite Kq in Ka.
    destruct o; destruct a; try discriminate Ka; cbn [negate unary_not].
    all: try (split; [rewrite Kq; reflexivity|exact H1]).
    all: match goal with |- context [if ?c then _ else _] => destruct c end;
         try discriminate; (split; [rewrite Kq; reflexivity|exact H1]).
  - apply IHc; assumption.
Qed.

(** ** the points where statements use a value *)

(** a store into a variable of the same kind never raises Type mismatch and keeps the kind *)
Lemma store_sound q qs v : is_str_q q = is_str_q qs -> is_str v = is_str_q qs ->
  no_tm (store q qs v) /\ forall w, store q qs v = Ok w -> is_str w = is_str_q q.
Proof.
  intros Hk Hv. destruct q, qs; try discriminate Hk; destruct v; try discriminate Hv; cbn [store cast];
    unfold double_to_single_checked, float_to_int, float_to_long;
    repeat (match goal with |- context [round_half_away ?f] => destruct (round_half_away f) end);
    repeat (match goal with |- context [if ?c then _ else _] => destruct c end);
    (split; [unfold no_tm; discriminate|]); intros w H; inversion H; reflexivity.
Qed.

(** a numeric condition can be tested *)
Lemma truthy_sound v : is_str v = false -> no_tm (truthy v).
Proof. destruct v; try discriminate; intros _; unfold no_tm; cbn; discriminate. Qed.

(** ** well-typed statements (the kind rules the checker enforces on the core fragment) *)
Definition kind_is (e : expr) (str : bool) : bool :=
  match etype e with Some q => Bool.eqb (is_str_q q) str | None => false end.

Definition wt_case (subject_str : bool) (c : case_expr) : bool :=
  match c with
  | CSimple e => kind_is e subject_str
  | CIs o e => is_rel o && kind_is e subject_str
  | CRange lo hi => kind_is lo subject_str && kind_is hi subject_str
  end.

Fixpoint wt_stmt (s : stmt) : bool :=
  let wt_block := fix wt_block (l : list stmt) : bool := match l with [] => true | x :: t => wt_stmt x && wt_block t end in
  match s with
  | SAssign _ n e => kind_is e (is_str_q (snd n))
  | SPrint _ args => forallb (fun a => match a with PExpr e => match etype e with Some _ => true | None => false end | _ => true end) args
  | SIf _ c thn elifs els =>
      kind_is c false && wt_block thn &&
      (fix go (l : list (expr * list stmt)) : bool := match l with [] => true | (c', b) :: t => kind_is c' false && wt_block b && go t end) elifs &&
      match els with Some b => wt_block b | None => true end
  | SWhile _ c b => kind_is c false && wt_block b
  | SDo _ _ _ c b => kind_is c false && wt_block b
  | SFor _ v lo hi step b =>
      negb (is_str_q (snd v)) && kind_is lo false && kind_is hi false &&
      match step with Some se => kind_is se false | None => true end && wt_block b
  | SSelect _ e cases els =>
      match etype e with
      | None => false
      | Some q =>
          (fix go (l : list (list case_expr * list stmt)) : bool :=
             match l with [] => true | (cs, b) :: t => forallb (wt_case (is_str_q q)) cs && wt_block b && go t end) cases &&
          match els with Some b => wt_block b | None => true end
      end
  | SData _ items => forallb (fun e => match etype e with Some _ => true | None => false end) items
  (* READ converts external data: outside the soundness statement (it may raise Type mismatch) *)
  | SRead _ _ => false
  end.

Definition wt_program (p : program) : bool := forallb wt_stmt p.

(** an assignment of a well-typed program never raises Type mismatch and keeps every variable of its kind *)
Section WithNumberText.
Variable num_text : variant -> list Z.
Variable is_negative : variant -> bool.

Lemma assign_ok st n v : env_ok st -> is_str v = is_str_q (snd n) -> env_ok (assign st n v).
Proof.
  intros H Hv m. specialize (H m). revert H. induction st as [|[k w] t IH]; cbn [assign lookup].
  - intros _. destruct (name_eqb n m) eqn:En.
    + unfold name_eqb in En. apply andb_true_iff in En. destruct En as [_ Eq]. rewrite Hv.
      destruct (snd n), (snd m); try discriminate Eq; reflexivity.
    + cbn. destruct (snd m); reflexivity.
  - destruct (name_eqb k n) eqn:Ekn; cbn [lookup].
    + destruct (name_eqb k m) eqn:Ekm; [|intros H; exact H]. intros _.
      unfold name_eqb in Ekn, Ekm. apply andb_true_iff in Ekn. apply andb_true_iff in Ekm.
      destruct Ekn as [_ E1]. destruct Ekm as [_ E2]. rewrite Hv.
      destruct (snd k), (snd n), (snd m); try discriminate E1; try discriminate E2; reflexivity.
    + destruct (name_eqb k m); [intros H; exact H|]. apply IH.
Qed.

Theorem assignment_sound f p n e st : wt_stmt (SAssign p n e) = true -> env_ok (vars st) ->
  match Sem.exec num_text is_negative (S f) (SAssign p n e) st with
  | Done st' => env_ok (vars st')
  | Failed x _ _ => x <> ETypeMismatch
  | _ => True
  end.
Proof.
  intros Hw Hst. cbn [wt_stmt] in Hw. unfold kind_is in Hw. destruct (etype e) as [qs|] eqn:Et; [|discriminate].
  apply Bool.eqb_prop in Hw. cbn [Sem.exec].
  pose proof (eval_sound e qs (vars st) Et Hst) as He. destruct (eval e (vars st)) as [v st1|x px]; [|exact He].
  destruct He as [Kv H1]. unfold convert_to. rewrite Et.
  destruct (store_sound (snd n) qs v (eq_sym Hw) Kv) as [N K].
  destruct (store (snd n) qs v) as [w|x]; cbn [vars].
  - apply assign_ok; [apply touch_ok; exact H1|apply K; reflexivity].
  - intro Hx; subst; apply N; reflexivity.
Qed.
End WithNumberText.
