(** Model of the checker's constant folder (rusty_linter/src/core/const_value_resolver.rs,
    converter/statement/const_rules.rs new_const): a tree walk over Variant operations. Unlike the
    VM's AND/OR handlers the folder does NOT convert the operands of AND/OR to INTEGER first. *)
From Coq Require Import List ZArith Bool Floats.SpecFloat.
From RB Require Import Generated.Tables Val.Bits Val.Variant Val.Arith2 Lang.Ast Lang.Sem.
Import ListNotations.

Inductive cexpr :=
| CLit (v : variant)
| CRef (bare : list Z) (oq : option qual)       (* a reference to an earlier constant *)
| CBin (op : bop) (l r : cexpr)
| CUn (op : uop) (c : cexpr)
| CParen (c : cexpr).

Definition cenv := list (list Z * variant).     (* bare name (upper-cased by the harness) -> value *)

Fixpoint clookup (env : cenv) (n : list Z) : option variant :=
  match env with
  | [] => None
  | (k, v) :: t => if bytes_eqb (map up k) (map up n) then Some v else clookup t n
  end.

(** a distinguished error for "not a constant" (LintError::InvalidConstant) *)
Inductive cres := COk (v : variant) | CErr (e : verr) | CInvalid.

(** [Variant::and] / [Variant::or]: INTEGER operands only *)
Definition strict_logical (is_and : bool) (a b : variant) : vres variant :=
  match a, b with
  | VInteger x, VInteger y => Ok (VInteger (if is_and then qb_and x y else qb_or x y))
  | _, _ => Err ETypeMismatch
  end.

Definition fold_binop (o : bop) (a b : variant) : vres variant :=
  match o with
  | And => strict_logical true a b
  | Or => strict_logical false a b
  | _ => binop o a b
  end.

Fixpoint fold (env : cenv) (e : cexpr) : cres :=
  match e with
  | CLit v => COk v
  | CRef n oq =>
      match clookup env n with
      | None => CInvalid
      | Some v => match oq with
                  | None => COk v
                  | Some q => if qual_eqb (tag v) q then COk v else CErr ETypeMismatch
                  end
      end
  | CBin o l r =>
      match fold env l with
      | COk a => match fold env r with
                 | COk b => match fold_binop o a b with Ok v => COk v | Err x => CErr x end
                 | other => other
                 end
      | other => other
      end
  | CUn o c =>
      match fold env c with
      | COk a => match (match o with UMinus => negate a | UNot => unary_not a end) with Ok v => COk v | Err x => CErr x end
      | other => other
      end
  | CParen c => fold env c
  end.

(** CONST name[suffix] = e : the folded value, converted when the name carries another suffix *)
Definition const_value (env : cenv) (oq : option qual) (e : cexpr) : cres :=
  match fold env e with
  | COk v =>
      match oq with
      | None => COk v
      | Some q => if qual_eqb (tag v) q then COk v else match cast v q with Ok w => COk w | Err x => CErr x end
      end
  | other => other
  end.

(** a chain of CONST statements; the result is the value of the last one *)
Fixpoint const_chain (env : cenv) (defs : list (list Z * option qual * cexpr)) : cres :=
  match defs with
  | [] => CInvalid
  | [(n, oq, e)] => const_value env oq e
  | (n, oq, e) :: t =>
      match const_value env oq e with
      | COk v => const_chain ((n, v) :: env) t
      | other => other
      end
  end.

(** what the expression is at run time: every reference replaced by a literal of the folded value *)
Fixpoint inline (env : cenv) (e : cexpr) : option expr :=
  let p := (0, 0)%nat in
  match e with
  | CLit v => Some (ELit p v)
  | CRef n oq => match clookup env n with
                 | Some v => match oq with
                             | None => Some (ELit p v)
                             | Some q => if qual_eqb (tag v) q then Some (ELit p v) else None
                             end
                 | None => None
                 end
  | CBin o l r => match inline env l, inline env r with
                  | Some a, Some b => Some (EBin p o a b)
                  | _, _ => None
                  end
  | CUn o c => match inline env c with Some a => Some (EUn p o a) | None => None end
  | CParen c => match inline env c with Some a => Some (EParen p a) | None => None end
  end.

Definition cres_eqb (r : cres) (code : Z) (v : variant) : bool :=
  match r with
  | COk w => (code =? 0)%Z && variant_eqb w v
  | CErr e => (verr_code e =? code)%Z
  | CInvalid => (code =? 999)%Z
  end.
