(** Shared utilities: finite sweeps lifted to universal statements, small list lemmas. *)
From Coq Require Import List ZArith Bool Lia.
Import ListNotations.
Open Scope Z_scope.

(** [all_below d lo P] evaluates [P] on the [2^d] integers [lo .. lo + 2^d - 1] by binary splitting
    (no large [nat] anywhere). *)
Fixpoint all_below (d : nat) (lo : Z) (P : Z -> bool) : bool :=
  match d with
  | O => P lo
  | S d' => all_below d' lo P && all_below d' (lo + 2 ^ Z.of_nat d') P
  end.

Lemma all_below_spec d : forall lo P, all_below d lo P = true ->
  forall z, lo <= z < lo + 2 ^ Z.of_nat d -> P z = true.
Proof.
  induction d as [|d IH]; intros lo P H z Hz.
  - cbn in H. change (2 ^ Z.of_nat 0) with 1 in Hz. assert (z = lo) by lia. subst; exact H.
  - cbn [all_below] in H. apply andb_true_iff in H as [H1 H2].
    rewrite Nat2Z.inj_succ, Z.pow_succ_r in Hz by lia.
    destruct (Z_lt_ge_dec z (lo + 2 ^ Z.of_nat d)) as [Hlt|Hge].
    + apply (IH lo P H1); lia.
    + apply (IH _ P H2); lia.
Qed.

(** Two-dimensional version for pairs. *)
Lemma all_below_spec2 d1 d2 lo1 lo2 (P : Z -> Z -> bool) :
  all_below d1 lo1 (fun a => all_below d2 lo2 (P a)) = true ->
  forall a b, lo1 <= a < lo1 + 2 ^ Z.of_nat d1 -> lo2 <= b < lo2 + 2 ^ Z.of_nat d2 -> P a b = true.
Proof.
  intros H a b Ha Hb.
  pose proof (all_below_spec d1 lo1 _ H a Ha) as H1. cbv beta in H1.
  exact (all_below_spec d2 lo2 _ H1 b Hb).
Qed.

Fixpoint list_eqb {A} (eqb : A -> A -> bool) (l r : list A) : bool :=
  match l, r with
  | [], [] => true
  | a :: l', b :: r' => eqb a b && list_eqb eqb l' r'
  | _, _ => false
  end.

Lemma list_eqb_eq {A} (eqb : A -> A -> bool) :
  (forall a b, eqb a b = true -> a = b) -> forall l r, list_eqb eqb l r = true -> l = r.
Proof.
  intros Heq; induction l as [|a l IH]; destruct r as [|b r]; cbn; intros H; try discriminate; auto.
  apply andb_true_iff in H as [H1 H2]. f_equal; auto.
Qed.

Lemma list_eqb_refl {A} (eqb : A -> A -> bool) :
  (forall a, eqb a a = true) -> forall l, list_eqb eqb l l = true.
Proof. intros Hr; induction l as [|a l IH]; cbn; auto. rewrite Hr, IH; reflexivity. Qed.

Definition option_eqb {A} (eqb : A -> A -> bool) (a b : option A) : bool :=
  match a, b with
  | Some x, Some y => eqb x y
  | None, None => true
  | _, _ => false
  end.
