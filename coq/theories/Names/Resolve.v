(** Model of name resolution (rusty_linter: core/type_resolver_impl.rs - the letter -> default type
    table updated by DEFtype statements in program order; names/* - a base name is one extended
    variable or a set of compact variables keyed by type; names_outer.rs - globals are visible in a
    subprogram only when SHARED, constants always). Characters are their codes. *)
From Coq Require Import List Arith Bool.
From RB Require Import Generated.Tables Lang.Ast.
Import ListNotations.

Definition up (c : nat) : nat := if Nat.leb 97 c && Nat.leb c 122 then c - 32 else c.
Definition upper (n : list nat) : list nat := map up n.

Fixpoint name_eqb (a b : list nat) : bool :=
  match a, b with
  | [], [] => true
  | x :: a', y :: b' => Nat.eqb x y && name_eqb a' b'
  | _, _ => false
  end.

(** DEFtype statements in program order: (first letter, last letter, type), letters as codes *)
Definition defs := list (nat * nat * qual).

(** the default type of a letter: the LAST DEFtype range that covers it, else SINGLE *)
Fixpoint default_of (d : defs) (letter : nat) : qual :=
  match d with
  | [] => QSingle
  | (lo, hi, q) :: t =>
      let later := default_of t letter in
      if existsb (fun r => Nat.leb (up (fst (fst r))) (up letter) && Nat.leb (up letter) (up (snd (fst r)))) t then later
      else if Nat.leb (up lo) (up letter) && Nat.leb (up letter) (up hi) then q else later
  end.

(** a spelling of a name in the source: letters (any case) and an optional type suffix *)
Definition spelling := (list nat * option qual)%type.

(** the variable a spelling denotes when the base name has no extended declaration *)
Definition compact_identity (d : defs) (s : spelling) : list nat * qual :=
  (upper (fst s), match snd s with Some q => q | None => default_of d (hd 0 (fst s)) end).

Definition id_eqb (a b : list nat * qual) : bool := name_eqb (fst a) (fst b) && qual_eqb (snd a) (snd b).

(** extended declarations (DIM A AS type) of a scope: upper-cased base name -> type *)
Definition exts := list (list nat * qual).
Fixpoint ext_lookup (e : exts) (n : list nat) : option qual :=
  match e with
  | [] => None
  | (k, q) :: t => if name_eqb k n then Some q else ext_lookup t n
  end.

Inductive resolved := RVar (id : list nat * qual) | RRejected.

(** resolution inside one scope *)
Definition resolve (d : defs) (e : exts) (s : spelling) : resolved :=
  match ext_lookup e (upper (fst s)) with
  | Some t =>
      match snd s with
      | None => RVar (upper (fst s), t)
      | Some q => if qual_eqb q t then RVar (upper (fst s), t) else RRejected
      end
  | None => RVar (compact_identity d s)
  end.

(** two scopes: where a spelling used inside a subprogram lives *)
Inductive home := HLocal | HGlobal | HConstant.

(** [params] and [locals]: identities declared in the subprogram; [consts]: names of global constants;
    [shared]: identities of DIM SHARED globals *)
Definition home_of (d : defs) (params locals shared : list (list nat * qual)) (consts : list (list nat)) (s : spelling) : home :=
  let id := compact_identity d s in
  if existsb (id_eqb id) params || existsb (id_eqb id) locals then HLocal
  else if existsb (name_eqb (fst id)) consts then HConstant
  else if existsb (id_eqb id) shared then HGlobal
  else HLocal.

(** observation codes used by the correspondence: 0 = two spellings are one variable, 1 = two
    different variables, 2 = the second spelling is rejected *)
Definition relation (d : defs) (e : exts) (s1 s2 : spelling) : nat :=
  match resolve d e s1, resolve d e s2 with
  | RVar a, RVar b => if id_eqb a b then 0 else 1
  | _, _ => 2
  end.
