(** The documented rules, for every name: bare = default type (SINGLE unless a DEFtype range covers
    the first letter), five suffixes = five variables, letter case is irrelevant, an extended
    declaration owns its base name. *)
From Coq Require Import List Arith Bool Lia.
From RB Require Import Generated.Tables Lang.Ast Names.Resolve.
Import ListNotations.

Lemma name_eqb_refl : forall n, name_eqb n n = true.
Proof. induction n as [|x n IH]; cbn; [reflexivity|]. rewrite Nat.eqb_refl, IH. reflexivity. Qed.

Lemma name_eqb_eq : forall a b, name_eqb a b = true -> a = b.
Proof.
  induction a as [|x a IH]; intros [|y b] H; cbn in H; try discriminate; [reflexivity|].
  apply andb_true_iff in H. destruct H as [H1 H2]. apply Nat.eqb_eq in H1. subst. f_equal. auto.
Qed.

Lemma qual_eqb_refl : forall q, qual_eqb q q = true.
Proof. destruct q; reflexivity. Qed.

Lemma qual_eqb_eq : forall a b, qual_eqb a b = true -> a = b.
Proof. destruct a, b; cbn; intros H; try discriminate; reflexivity. Qed.

Lemma up_idem : forall c, up (up c) = up c.
Proof.
  intros c. unfold up. destruct (Nat.leb 97 c && Nat.leb c 122) eqn:E; [|rewrite E; reflexivity].
  apply andb_true_iff in E. destruct E as [E1 E2]. apply Nat.leb_le in E1. apply Nat.leb_le in E2.
  assert (H : Nat.leb 97 (c - 32) = false) by (apply Nat.leb_gt; lia). rewrite H. reflexivity.
Qed.

Lemma upper_idem : forall n, upper (upper n) = upper n.
Proof. induction n as [|x n IH]; cbn; [reflexivity|]. rewrite up_idem. f_equal. exact IH. Qed.

(** with no DEFtype statement a bare name is SINGLE: A and A! are one variable *)
Theorem bare_is_single_by_default : forall n, compact_identity [] (n, None) = compact_identity [] (n, Some QSingle).
Proof. reflexivity. Qed.

(** the five suffixes give five different variables, whatever the DEFtype statements say *)
Theorem five_suffixes_five_variables : forall d n q1 q2, q1 <> q2 ->
  id_eqb (compact_identity d (n, Some q1)) (compact_identity d (n, Some q2)) = false.
Proof.
  intros d n q1 q2 H. unfold id_eqb, compact_identity. cbn [fst snd]. rewrite name_eqb_refl. cbn.
  destruct (qual_eqb q1 q2) eqn:E; [apply qual_eqb_eq in E; contradiction|reflexivity].
Qed.

(** letter case never matters: spellings that differ only in case denote the same variable *)
Lemma default_of_case : forall d c, default_of d (up c) = default_of d c.
Proof.
  induction d as [|[[lo hi] q] t IH]; intros c; cbn [default_of]; [reflexivity|].
  rewrite up_idem, IH. reflexivity.
Qed.

Theorem case_insensitive : forall d n m sfx, upper n = upper m ->
  compact_identity d (n, sfx) = compact_identity d (m, sfx).
Proof.
  intros d n m sfx H. unfold compact_identity. cbn [fst snd]. rewrite H. f_equal.
  destruct sfx; [reflexivity|].
  destruct n as [|x n], m as [|y m]; cbn in H; try discriminate; [reflexivity|].
  inversion H as [[Hx Hr]]. cbn [hd]. rewrite <- (default_of_case d x), <- (default_of_case d y), Hx. reflexivity.
Qed.

(** a single DEFtype range: letters inside get the type, letters outside keep SINGLE - both ends included *)
Theorem one_range : forall lo hi q c,
  default_of [(lo, hi, q)] c = if Nat.leb (up lo) (up c) && Nat.leb (up c) (up hi) then q else QSingle.
Proof. intros. reflexivity. Qed.

(** a later DEFtype statement wins over an earlier one for the letters it covers *)
Theorem later_range_wins : forall d lo hi q c,
  Nat.leb (up lo) (up c) && Nat.leb (up c) (up hi) = true -> default_of (d ++ [(lo, hi, q)]) c = q.
Proof.
  induction d as [|[[l h] q0] t IH]; intros lo hi q c H; cbn [app default_of].
  - cbn [existsb]. rewrite H. reflexivity.
  - assert (E : existsb (fun r => Nat.leb (up (fst (fst r))) (up c) && Nat.leb (up c) (up (snd (fst r)))) (t ++ [(lo, hi, q)]) = true).
    { apply existsb_exists. exists (lo, hi, q). split; [apply in_or_app; right; left; reflexivity|exact H]. }
    rewrite E. apply IH. exact H.
Qed.

(** an extended declaration owns its base name: bare and matching suffix are that variable, any
    other suffix is rejected *)
Theorem extended_owns_the_name : forall d e n t, ext_lookup e (upper n) = Some t ->
  resolve d e (n, None) = RVar (upper n, t) /\
  resolve d e (n, Some t) = RVar (upper n, t) /\
  forall q, q <> t -> resolve d e (n, Some q) = RRejected.
Proof.
  intros d e n t H. unfold resolve. cbn [fst snd]. rewrite H. split; [reflexivity|]. split.
  - rewrite qual_eqb_refl. reflexivity.
  - intros q Hq. destruct (qual_eqb q t) eqn:E; [apply qual_eqb_eq in E; contradiction|reflexivity].
Qed.

(** inside a subprogram a name is local unless it is a parameter (local too), a constant, or SHARED *)
Theorem local_unless_declared_otherwise : forall d params locals shared consts s,
  existsb (id_eqb (compact_identity d s)) params = false ->
  existsb (id_eqb (compact_identity d s)) locals = false ->
  existsb (name_eqb (fst (compact_identity d s))) consts = false ->
  existsb (id_eqb (compact_identity d s)) shared = false ->
  home_of d params locals shared consts s = HLocal.
Proof. intros d params locals shared consts s H1 H2 H3 H4. unfold home_of. rewrite H1, H2, H3, H4. reflexivity. Qed.

Theorem shared_is_global : forall d params locals shared consts s,
  existsb (id_eqb (compact_identity d s)) params = false ->
  existsb (id_eqb (compact_identity d s)) locals = false ->
  existsb (name_eqb (fst (compact_identity d s))) consts = false ->
  existsb (id_eqb (compact_identity d s)) shared = true ->
  home_of d params locals shared consts s = HGlobal.
Proof. intros d params locals shared consts s H1 H2 H3 H4. unfold home_of. rewrite H1, H2, H3, H4. reflexivity. Qed.
