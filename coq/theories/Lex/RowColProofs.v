(** Positions are counted from 1, there is one per character, they never go backwards, and the row
    and column of a character do not depend on the line-ending convention of the file. *)
From Coq Require Import List Arith Bool Lia.
From RB Require Import Lex.RowCol.
Import ListNotations.

Lemma rowcol_from_length : forall chars r c, length (rowcol_from chars r c) = length chars.
Proof.
  induction chars as [|ch rest IH]; intros r c; cbn [rowcol_from length]; [reflexivity|].
  f_equal. destruct (Nat.eqb ch CR); [destruct rest as [|nx t]; [apply IH|destruct (Nat.eqb nx LF); apply IH]|].
  destruct (Nat.eqb ch LF); apply IH.
Qed.

Lemma rowcol_from_ge1 : forall chars r c p, 1 <= r -> 1 <= c -> In p (rowcol_from chars r c) -> 1 <= fst p /\ 1 <= snd p.
Proof.
  induction chars as [|ch rest IH]; intros r c p Hr Hc H; cbn [rowcol_from] in H; [destruct H|].
  destruct H as [H|H]; [subst p; cbn; lia|].
  destruct (Nat.eqb ch CR).
  - destruct rest as [|nx t]; [destruct H|]. destruct (Nat.eqb nx LF); eapply IH; try exact H; lia.
  - destruct (Nat.eqb ch LF); eapply IH; try exact H; lia.
Qed.

(** positions never go backwards: every later position is on the same row further right, or on a later row *)
Definition le_pos (p q : nat * nat) : Prop := fst p < fst q \/ (fst p = fst q /\ snd p <= snd q).

Lemma rowcol_from_lower_bound : forall chars r c p, In p (rowcol_from chars r c) -> le_pos (r, c) p.
Proof.
  induction chars as [|ch rest IH]; intros r c p H; cbn [rowcol_from] in H; [destruct H|].
  destruct H as [H|H]; [subst p; right; cbn; lia|].
  assert (A : forall r' c', le_pos (r, c) (r', c') -> In p (rowcol_from rest r' c') -> le_pos (r, c) p).
  { intros r' c' L Hin. specialize (IH r' c' p Hin). unfold le_pos in *. cbn [fst snd] in *. lia. }
  destruct (Nat.eqb ch CR).
  - destruct rest as [|nx t]; [destruct H|].
    destruct (Nat.eqb nx LF); [eapply (A r c); [right; cbn; lia|exact H]|eapply (A (S r) 1); [left; cbn; lia|exact H]].
  - destruct (Nat.eqb ch LF); [eapply (A (S r) 1); [left; cbn; lia|exact H]|eapply (A r (S c)); [right; cbn; lia|exact H]].
Qed.

(** a stretch of plain characters advances the column only *)
Lemma rowcol_plain : forall l rest r c j, plain_line l = true -> j < length l ->
  nth_error (rowcol_from (l ++ rest) r c) j = Some (r, c + j).
Proof.
  induction l as [|ch l IH]; intros rest r c j Hp Hj; [cbn in Hj; lia|].
  cbn [plain_line forallb] in Hp. apply andb_true_iff in Hp. destruct Hp as [Hc Hl].
  unfold is_plain in Hc. apply andb_true_iff in Hc. destruct Hc as [H1 H2].
  apply negb_true_iff in H1. apply negb_true_iff in H2.
  cbn [app rowcol_from]. rewrite H1, H2. destruct j as [|j]; [cbn; f_equal; f_equal; lia|].
  cbn [nth_error]. cbn [length] in Hj. rewrite (IH rest r (S c) j Hl) by lia. f_equal. f_equal. lia.
Qed.

Lemma rowcol_skip_plain : forall l rest r c j, plain_line l = true ->
  nth_error (rowcol_from (l ++ rest) r c) (length l + j) = nth_error (rowcol_from rest r (c + length l)) j.
Proof.
  induction l as [|ch l IH]; intros rest r c j Hp; [cbn; rewrite Nat.add_0_r; reflexivity|].
  cbn [plain_line forallb] in Hp. apply andb_true_iff in Hp. destruct Hp as [Hc Hl].
  unfold is_plain in Hc. apply andb_true_iff in Hc. destruct Hc as [H1 H2].
  apply negb_true_iff in H1. apply negb_true_iff in H2.
  cbn [app rowcol_from length Nat.add nth_error]. rewrite H1, H2. rewrite (IH rest r (S c) j Hl).
  f_equal. f_equal. lia.
Qed.

Definition is_sep (sep : list nat) : Prop := sep = [LF] \/ sep = [CR] \/ sep = [CR; LF].

(** after a separator the next line starts at column 1 of the next row, whatever the separator;
    [rest] must not begin with LF (it is a line of plain characters, or the end) *)
Lemma rowcol_skip_sep : forall sep rest r c j, is_sep sep ->
  (match rest with nx :: _ => Nat.eqb nx LF = false | [] => True end) ->
  nth_error (rowcol_from (sep ++ rest) r c) (length sep + j) = nth_error (rowcol_from rest (S r) 1) j.
Proof.
  intros sep rest r c j [H|[H|H]] Hn; subst sep; cbn [app length Nat.add nth_error rowcol_from].
  - reflexivity.
  - change (Nat.eqb CR CR) with true. cbv iota. destruct rest as [|nx t]; [reflexivity|]. rewrite Hn. reflexivity.
  - change (Nat.eqb CR CR) with true. change (Nat.eqb LF LF) with true. change (Nat.eqb LF CR) with false. cbv iota. reflexivity.
Qed.

Lemma plain_head l t : plain_line l = true -> (forall x, In x t -> plain_line x = true) -> forall sep,
  match join sep (l :: t) with nx :: _ => Nat.eqb nx LF = false | [] => True end \/ l = [].
Proof.
  intros Hl _ sep. destruct l as [|ch l]; [right; reflexivity|left].
  cbn [plain_line forallb] in Hl. apply andb_true_iff in Hl. destruct Hl as [Hc _].
  unfold is_plain in Hc. apply andb_true_iff in Hc. destruct Hc as [_ H2]. apply negb_true_iff in H2.
  destruct t; cbn; exact H2.
Qed.

(** the character [j] of line [k] is at row k+1, column j+1 - for LF, CR and CRLF files alike.
    (Lines are non-empty here so that a lone CR is never followed by the LF of an empty line.) *)
Theorem position_independent_of_line_endings : forall sep lines r k j l,
  is_sep sep -> (forall x, In x lines -> plain_line x = true /\ x <> []) ->
  nth_error lines k = Some l -> j < length l ->
  nth_error (rowcol_from (join sep lines) r 1) (offset sep lines k j) = Some (r + k, S j).
Proof.
  intros sep lines. induction lines as [|l0 t IH]; intros r k j l Hs Hall Hk Hj; [destruct k; discriminate|].
  destruct k as [|k].
  - cbn [nth_error] in Hk. inversion Hk; subst l0. cbn [offset].
    destruct (Hall l (or_introl eq_refl)) as [Hp _].
    assert (E : exists rest, join sep (l :: t) = l ++ rest).
    { destruct t; [exists []; cbn; rewrite app_nil_r; reflexivity|eexists; reflexivity]. }
    destruct E as [rest E]. rewrite E. rewrite (rowcol_plain l rest r 1 j Hp Hj). f_equal. f_equal; lia.
  - cbn [nth_error] in Hk. destruct t as [|l1 t']; [destruct k; discriminate|].
    change (join sep (l0 :: l1 :: t')) with (l0 ++ sep ++ join sep (l1 :: t')).
    change (offset sep (l0 :: l1 :: t') (S k) j) with (length l0 + length sep + offset sep (l1 :: t') k j).
    destruct (Hall l0 (or_introl eq_refl)) as [Hp0 _].
    rewrite <- Nat.add_assoc. rewrite (rowcol_skip_plain l0 _ r 1 _ Hp0).
    assert (Hn : match join sep (l1 :: t') with nx :: _ => Nat.eqb nx LF = false | [] => True end).
    { destruct (Hall l1 (or_intror (or_introl eq_refl))) as [Hp1 Hne].
      destruct (plain_head l1 t' Hp1 (fun x Hx => proj1 (Hall x (or_intror (or_intror Hx)))) sep) as [H|H]; [exact H|contradiction]. }
    rewrite (rowcol_skip_sep sep _ r (1 + length l0) _ Hs Hn).
    rewrite (IH (S r) k j l Hs (fun x Hx => Hall x (or_intror Hx)) Hk Hj). f_equal. f_equal. lia.
Qed.

(** the reported position is that of a character, or the column right after the last one *)
Theorem position_at_inside_or_at_end : forall chars idx,
  (idx < length chars /\ nth_error (rowcol chars) idx = Some (position_at chars idx)) \/
  (length chars <= idx /\
   match rev (rowcol chars) with
   | [] => chars = [] /\ position_at chars idx = (1, 1)
   | (r, c) :: _ => position_at chars idx = (r, S c)
   end).
Proof.
  intros chars idx. unfold position_at.
  destruct (nth_error (rowcol chars) idx) as [p|] eqn:E.
  - left. split; [|reflexivity]. unfold rowcol in E.
    assert (H : idx < length (rowcol_from chars 1 1)) by (apply nth_error_Some; congruence).
    rewrite rowcol_from_length in H. exact H.
  - right. apply nth_error_None in E. unfold rowcol in *. rewrite rowcol_from_length in E. split; [exact E|].
    destruct (rev (rowcol_from chars 1 1)) as [|[r c] t] eqn:Er; [|reflexivity].
    split; [|reflexivity]. apply (f_equal (@length _)) in Er. rewrite rev_length, rowcol_from_length in Er.
    destruct chars; [reflexivity|discriminate].
Qed.
