(** Model of the row/column table of the parser's input layer
    (rusty_parser/src/input/row_col_view.rs create_row_col_view, string_view.rs position /
    eof_row_col). Characters are their codes; 13 = CR, 10 = LF. *)
From Coq Require Import List Arith Bool.
Import ListNotations.

Definition CR := 13.
Definition LF := 10.

(** one pass over the characters; CRLF counts once (the CR does not advance) *)
Fixpoint rowcol_from (chars : list nat) (row col : nat) : list (nat * nat) :=
  match chars with
  | [] => []
  | ch :: rest =>
      (row, col) ::
      (if Nat.eqb ch CR then
         match rest with
         | nx :: _ => if Nat.eqb nx LF then rowcol_from rest row col else rowcol_from rest (S row) 1
         | [] => rowcol_from rest (S row) 1
         end
       else if Nat.eqb ch LF then rowcol_from rest (S row) 1
       else rowcol_from rest row (S col))
  end.

Definition rowcol (chars : list nat) : list (nat * nat) := rowcol_from chars 1 1.

(** the position reported for the reader index: inside the text, or just past its last character *)
Definition position_at (chars : list nat) (idx : nat) : nat * nat :=
  match nth_error (rowcol chars) idx with
  | Some p => p
  | None =>
      match rev (rowcol chars) with
      | [] => (1, 1)
      | (r, c) :: _ => (r, S c)
      end
  end.

(** a text made of lines joined by one of the three line-ending conventions *)
Fixpoint join (sep : list nat) (lines : list (list nat)) : list nat :=
  match lines with
  | [] => []
  | [l] => l
  | l :: t => l ++ sep ++ join sep t
  end.

Definition is_plain (ch : nat) : bool := negb (Nat.eqb ch CR) && negb (Nat.eqb ch LF).
Definition plain_line (l : list nat) : bool := forallb is_plain l.

(** the index of character [j] of line [k] *)
Fixpoint offset (sep : list nat) (lines : list (list nat)) (k j : nat) : nat :=
  match k, lines with
  | O, _ => j
  | S k', l :: t => length l + length sep + offset sep t k' j
  | S _, [] => j
  end.

Definition pos_eqb (p q : nat * nat) : bool := Nat.eqb (fst p) (fst q) && Nat.eqb (snd p) (snd q).

(** helpers for the correspondence cases *)
Definition positions_all (chars : list nat) : list (nat * nat) :=
  map (position_at chars) (seq 0 (S (length chars))).

Fixpoint poslist_eqb (a b : list (nat * nat)) : bool :=
  match a, b with
  | [], [] => true
  | x :: a', y :: b' => pos_eqb x y && poslist_eqb a' b'
  | _, _ => false
  end.

(** is (row, col) the position of some reader index in [lo, hi] (hi may be the end of the text)? *)
Definition position_in_range (chars : list nat) (lo hi : nat) (p : nat * nat) : bool :=
  existsb (fun idx => pos_eqb (position_at chars idx) p) (seq lo (S hi - lo)).

(** is it the position of any index of the text, or of its end? *)
Definition position_in_text (chars : list nat) (p : nat * nat) : bool :=
  position_in_range chars 0 (length chars) p.
