(** Layout equivalence of program texts: [canon] removes exactly what must not matter - the case of
    letters outside string literals, the amount of blanks and tabs, leading and trailing blanks,
    trailing comments, blank lines and the line-ending convention. Two texts with the same [canon]
    are "the same program in another layout". Characters are their codes. *)
From Coq Require Import List Arith Bool.
Import ListNotations.

Definition CR := 13.
Definition LF := 10.
Definition QUOTE := 34.
Definition APOS := 39.
Definition SP := 32.
Definition TAB := 9.

Definition up (c : nat) : nat := if Nat.leb 97 c && Nat.leb c 122 then c - 32 else c.
Definition is_blank (c : nat) : bool := Nat.eqb c SP || Nat.eqb c TAB.

Inductive mode := Code | Str | Comment.

(** [pending]: a blank was seen after content on this line; [content]: the line has content *)
Fixpoint canon_go (m : mode) (pending content : bool) (l : list nat) : list nat :=
  match l with
  | [] => if content then [LF] else []
  | c :: t =>
      if Nat.eqb c CR then
        (if content then [LF] else []) ++
        match t with
        | nx :: t' => if Nat.eqb nx LF then canon_go Code false false t' else canon_go Code false false t
        | [] => []
        end
      else if Nat.eqb c LF then (if content then [LF] else []) ++ canon_go Code false false t
      else
        match m with
        | Comment => canon_go Comment pending content t
        | Str => c :: canon_go (if Nat.eqb c QUOTE then Code else Str) false true t
        | Code =>
            if is_blank c then canon_go Code content content t
            else if Nat.eqb c APOS then canon_go Comment pending content t
            else (if pending then [SP] else []) ++
                 (if Nat.eqb c QUOTE then c :: canon_go Str false true t
                  else up c :: canon_go Code false true t)
        end
  end.

Definition canon (l : list nat) : list nat := canon_go Code false false l.

(** ** the layout transformations *)

(** every line terminator (CRLF, lone CR, LF) replaced by [sep] *)
Fixpoint retarget (sep : list nat) (l : list nat) : list nat :=
  match l with
  | [] => []
  | c :: t =>
      if Nat.eqb c CR then
        sep ++ match t with
               | nx :: t' => if Nat.eqb nx LF then retarget sep t' else retarget sep t
               | [] => []
               end
      else if Nat.eqb c LF then sep ++ retarget sep t
      else c :: retarget sep t
  end.

(** the case of letters changed wherever [mask] says so, outside strings and comments *)
Definition swapcase (c : nat) : nat :=
  if Nat.leb 97 c && Nat.leb c 122 then c - 32 else if Nat.leb 65 c && Nat.leb c 90 then c + 32 else c.

Fixpoint recase_go (m : mode) (mask : nat -> bool) (i : nat) (l : list nat) : list nat :=
  match l with
  | [] => []
  | c :: t =>
      if Nat.eqb c CR || Nat.eqb c LF then c :: recase_go Code mask (S i) t
      else
        match m with
        | Comment => c :: recase_go Comment mask (S i) t
        | Str => c :: recase_go (if Nat.eqb c QUOTE then Code else Str) mask (S i) t
        | Code =>
            if Nat.eqb c APOS then c :: recase_go Comment mask (S i) t
            else if Nat.eqb c QUOTE then c :: recase_go Str mask (S i) t
            else (if mask i then swapcase c else c) :: recase_go Code mask (S i) t
        end
  end.

Definition recase (mask : nat -> bool) (l : list nat) : list nat := recase_go Code mask 0 l.

Fixpoint list_eqb (a b : list nat) : bool :=
  match a, b with
  | [], [] => true
  | x :: a', y :: b' => Nat.eqb x y && list_eqb a' b'
  | _, _ => false
  end.

Definition same_layout_class (a b : list nat) : bool := list_eqb (canon a) (canon b).
