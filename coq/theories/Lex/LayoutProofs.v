(** The layout transformations do not change the layout class of a text. *)
From Coq Require Import List Arith Bool Lia.
From RB Require Import Lex.Layout.
Import ListNotations.

Definition is_sep (sep : list nat) : Prop := sep = [LF] \/ sep = [CR] \/ sep = [CR; LF].

(** ** line endings *)
Lemma canon_go_sep : forall sep m p c t, is_sep sep ->
  (match t with nx :: _ => Nat.eqb nx LF = false | [] => True end) ->
  canon_go m p c (sep ++ t) = (if c then [LF] else []) ++ canon_go Code false false t.
Proof.
  intros sep m p c t [H|[H|H]] Hn; subst sep; cbn [app canon_go].
  - change (Nat.eqb LF CR) with false. change (Nat.eqb LF LF) with true. cbv iota. reflexivity.
  - change (Nat.eqb CR CR) with true. cbv iota. destruct t as [|nx t']; [destruct c; reflexivity|]. rewrite Hn. reflexivity.
  - change (Nat.eqb CR CR) with true. change (Nat.eqb LF LF) with true. cbv iota. reflexivity.
Qed.

Lemma retarget_head_not_lf : forall sep l, is_sep sep -> sep <> [LF] ->
  match retarget sep l with nx :: _ => True | [] => True end.
Proof. intros. destruct (retarget sep l); exact I. Qed.

(** after [retarget] with CR or CRLF no LF can directly follow a separator except its own *)
Lemma retarget_no_leading_lf : forall sep l, sep = [CR] \/ sep = [CR; LF] ->
  match retarget sep l with nx :: _ => Nat.eqb nx LF = false | [] => True end.
Proof.
  intros sep l Hs. destruct l as [|c t]; [exact I|]. cbn [retarget].
  destruct (Nat.eqb c CR) eqn:E1.
  - destruct Hs as [H|H]; subst sep; reflexivity.
  - destruct (Nat.eqb c LF) eqn:E2; [destruct Hs as [H|H]; subst sep; reflexivity|]. cbn. exact E2.
Qed.

Theorem retarget_keeps_canon : forall sep l m p c, is_sep sep -> canon_go m p c (retarget sep l) = canon_go m p c l.
Proof.
  intros sep l. remember (length l) as n eqn:Hn. revert l Hn.
  induction n as [n IH] using lt_wf_ind. intros l Hn m p c Hs.
  destruct l as [|ch t]; [reflexivity|]. cbn [retarget canon_go].
  assert (Hlf : forall t0, sep = [LF] \/ (match retarget sep t0 with nx :: _ => Nat.eqb nx LF = false | [] => True end)).
  { intros t0. destruct Hs as [H|H]; [left; exact H|right; apply retarget_no_leading_lf; exact H]. }
  assert (Sep : forall t0, length t0 < n ->
            canon_go m p c (sep ++ retarget sep t0) = (if c then [LF] else []) ++ canon_go Code false false t0).
  { intros t0 Hl. destruct (Hlf t0) as [H|H].
    - subst sep. cbn [app canon_go]. change (Nat.eqb LF CR) with false. change (Nat.eqb LF LF) with true. cbv iota.
      f_equal. apply (IH (length t0) Hl t0 eq_refl); left; reflexivity.
    - rewrite (canon_go_sep sep m p c _ Hs H). f_equal. apply (IH (length t0) Hl t0 eq_refl). exact Hs. }
  destruct (Nat.eqb ch CR) eqn:E1.
  - destruct t as [|nx t'].
    + rewrite app_nil_r. destruct Hs as [H|[H|H]]; subst sep; cbn [canon_go app];
        change (Nat.eqb LF CR) with false; change (Nat.eqb LF LF) with true; change (Nat.eqb CR CR) with true; cbv iota;
        destruct c; reflexivity.
    + destruct (Nat.eqb nx LF) eqn:E3.
      * apply Sep. subst n. cbn. lia.
      * apply Sep. subst n. cbn. lia.
  - destruct (Nat.eqb ch LF) eqn:E2.
    + apply Sep. subst n. cbn. lia.
    + cbn [canon_go]. rewrite E1, E2.
      assert (R : forall m' p' c', canon_go m' p' c' (retarget sep t) = canon_go m' p' c' t).
      { intros. apply (IH (length t)); [subst n; cbn; lia|reflexivity|exact Hs]. }
      destruct m; rewrite ?R; reflexivity.
Qed.

Corollary line_endings_do_not_matter : forall sep l, is_sep sep -> canon (retarget sep l) = canon l.
Proof. intros. unfold canon. apply retarget_keeps_canon. assumption. Qed.

(** ** letter case *)
Lemma up_swapcase : forall c, up (swapcase c) = up c.
Proof.
  intros c. unfold swapcase, up.
  destruct (Nat.leb 97 c && Nat.leb c 122) eqn:E1.
  - apply andb_true_iff in E1. destruct E1 as [A B]. apply Nat.leb_le in A. apply Nat.leb_le in B.
    assert (H : Nat.leb 97 (c - 32) && Nat.leb (c - 32) 122 = false) by (apply andb_false_iff; left; apply Nat.leb_gt; lia).
    rewrite H. reflexivity.
  - destruct (Nat.leb 65 c && Nat.leb c 90) eqn:E2; [|rewrite E1; reflexivity].
    apply andb_true_iff in E2. destruct E2 as [A B]. apply Nat.leb_le in A. apply Nat.leb_le in B.
    assert (H : Nat.leb 97 (c + 32) && Nat.leb (c + 32) 122 = true) by (apply andb_true_iff; split; apply Nat.leb_le; lia).
    rewrite H. lia.
Qed.

Lemma swapcase_class : forall c k, (k = CR \/ k = LF \/ k = APOS \/ k = QUOTE \/ k = SP \/ k = TAB) ->
  Nat.eqb (swapcase c) k = Nat.eqb c k.
Proof.
  intros c k Hk. unfold swapcase.
  destruct (Nat.leb 97 c && Nat.leb c 122) eqn:E1.
  - apply andb_true_iff in E1. destruct E1 as [A B]. apply Nat.leb_le in A. apply Nat.leb_le in B.
    unfold CR, LF, APOS, QUOTE, SP, TAB in Hk.
    destruct (Nat.eqb_spec (c - 32) k), (Nat.eqb_spec c k); try reflexivity; lia.
  - destruct (Nat.leb 65 c && Nat.leb c 90) eqn:E2; [|reflexivity].
    apply andb_true_iff in E2. destruct E2 as [A B]. apply Nat.leb_le in A. apply Nat.leb_le in B.
    unfold CR, LF, APOS, QUOTE, SP, TAB in Hk.
    destruct (Nat.eqb_spec (c + 32) k), (Nat.eqb_spec c k); try reflexivity; lia.
Qed.

Lemma recase_cons : forall m mask i c t, exists c' m',
  recase_go m mask i (c :: t) = c' :: recase_go m' mask (S i) t /\ Nat.eqb c' LF = Nat.eqb c LF /\
  (Nat.eqb c LF = true -> m' = Code).
Proof.
  intros m mask i c t. cbn [recase_go].
  destruct (Nat.eqb c CR || Nat.eqb c LF) eqn:E.
  - exists c, Code. split; [reflexivity|split; [reflexivity|intros _; reflexivity]].
  - apply orb_false_iff in E. destruct E as [E1 E2].
    destruct m.
    + destruct (Nat.eqb c APOS); [exists c, Comment; split; [reflexivity|split; [reflexivity|intros H; congruence]]|].
      destruct (Nat.eqb c QUOTE); [exists c, Str; split; [reflexivity|split; [reflexivity|intros H; congruence]]|].
      destruct (mask i).
      * exists (swapcase c), Code. split; [reflexivity|split; [apply swapcase_class; auto|intros _; reflexivity]].
      * exists c, Code. split; [reflexivity|split; [reflexivity|intros _; reflexivity]].
    + eexists c, _. split; [reflexivity|split; [reflexivity|intros H; congruence]].
    + exists c, Comment. split; [reflexivity|split; [reflexivity|intros H; congruence]].
Qed.

Lemma is_blank_swapcase c : is_blank (swapcase c) = is_blank c.
Proof. unfold is_blank. rewrite !swapcase_class by auto 10. reflexivity. Qed.

Theorem recase_keeps_canon : forall mask l m i p c, canon_go m p c (recase_go m mask i l) = canon_go m p c l.
Proof.
  intros mask l. remember (length l) as n eqn:Hn. revert l Hn.
  induction n as [n IH] using lt_wf_ind. intros l Hn m i p c.
  destruct l as [|ch t]; [reflexivity|].
  assert (R : forall m' i' p' c', canon_go m' p' c' (recase_go m' mask i' t) = canon_go m' p' c' t).
  { intros. apply (IH (length t)); [subst n; cbn; lia|reflexivity]. }
  cbn [recase_go].
  destruct (Nat.eqb ch CR) eqn:E1.
  - cbn [orb]. cbn [canon_go]. rewrite E1. f_equal. destruct t as [|nx t'].
    + reflexivity.
    + destruct (recase_cons Code mask (S i) nx t') as (c' & m' & Hr & Hlf & Hm). rewrite Hr, Hlf.
      destruct (Nat.eqb nx LF) eqn:E3.
      * rewrite (Hm eq_refl). apply (IH (length t')); [subst n; cbn; lia|reflexivity].
      * rewrite <- Hr. apply R.
  - destruct (Nat.eqb ch LF) eqn:E2.
    + cbn [orb]. cbn [canon_go]. rewrite E1, E2. f_equal. apply R.
    + cbn [orb]. destruct m.
      * destruct (Nat.eqb ch APOS) eqn:E3.
        { apply Nat.eqb_eq in E3. subst ch. unfold APOS. cbn. apply R. }
        destruct (Nat.eqb ch QUOTE) eqn:E4.
        { apply Nat.eqb_eq in E4. subst ch. unfold QUOTE. cbn. rewrite R. reflexivity. }
        destruct (mask i).
        { cbn [canon_go]. rewrite !swapcase_class by auto 10. rewrite E1, E2, is_blank_swapcase.
          destruct (is_blank ch); [apply R|]. rewrite E3, E4, up_swapcase, R. reflexivity. }
        { cbn [canon_go]. rewrite E1, E2. destruct (is_blank ch); [apply R|]. rewrite E3, E4, R. reflexivity. }
      * cbn [canon_go]. rewrite E1, E2. rewrite R. reflexivity.
      * cbn [canon_go]. rewrite E1, E2. apply R.
Qed.

Corollary letter_case_does_not_matter : forall mask l, canon (recase mask l) = canon l.
Proof. intros. unfold canon, recase. apply recase_keeps_canon. Qed.

(** ** blanks, tabs, comments, blank lines (local forms) *)
Theorem one_blank_or_many : forall p c t, canon_go Code p c (SP :: SP :: t) = canon_go Code p c (SP :: t).
Proof. intros. cbn. destruct c; reflexivity. Qed.

Theorem tab_is_a_blank : forall p c t, canon_go Code p c (TAB :: t) = canon_go Code p c (SP :: t).
Proof. intros. reflexivity. Qed.

Theorem leading_blanks_vanish : forall t, canon (SP :: t) = canon t.
Proof. intros. reflexivity. Qed.

Theorem blank_line_vanishes : forall t, canon (LF :: t) = canon t.
Proof. intros. reflexivity. Qed.

(** a trailing comment (no line terminator inside) changes nothing *)
Lemma comment_body : forall body p c t, forallb (fun x => negb (Nat.eqb x CR) && negb (Nat.eqb x LF)) body = true ->
  canon_go Comment p c (body ++ LF :: t) = canon_go Comment p c (LF :: t).
Proof.
  induction body as [|x body IH]; intros p c t H; [reflexivity|].
  cbn [forallb] in H. apply andb_true_iff in H. destruct H as [Hx Hb]. apply andb_true_iff in Hx. destruct Hx as [H1 H2].
  apply negb_true_iff in H1. apply negb_true_iff in H2.
  cbn [app canon_go]. rewrite H1, H2. apply IH. exact Hb.
Qed.

Theorem trailing_comment_vanishes : forall body p c t,
  forallb (fun x => negb (Nat.eqb x CR) && negb (Nat.eqb x LF)) body = true ->
  canon_go Code p c (APOS :: body ++ LF :: t) = canon_go Code p c (LF :: t).
Proof.
  intros body p c t H. cbn [canon_go]. change (Nat.eqb APOS CR) with false. change (Nat.eqb APOS LF) with false.
  change (is_blank APOS) with false. change (Nat.eqb APOS APOS) with true. cbv iota.
  rewrite (comment_body body p c t H). reflexivity.
Qed.
