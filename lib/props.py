"""Per-property configuration of ./check."""

COMMON_TB = [
    "Coq 8.16.1 kernel (coqc, full .vo builds; vm_compute used in finite sweeps and in the correspondence evaluation; no native_compute)",
    "the development declares no axioms (audited by grep on every run); Print Assumptions output is compared with an allow-list",
    "correspondence harness /verif/harness (Rust): case generators, canonicalisation, Coq literal printer",
    "Rust std semantics for the primitives the models take as given (integer ops on i32/i64, Vec, f64::to_bits/from_bits)",
]

import re


PROPS = {
    "C18": {
        "coq_targets": ["theories/RT/FilesProofs.vo", "theories/RT/ReadInputProofs.vo"],
        "harness": ["c18"],
        "disagreement_is_violation": True,
        "axioms": [],
        "trusted_base": COMMON_TB + [
            "modelled, not verified: rusty_basic/src/interpreter/io.rs (FileManager::open / close / close_all, FileInfo get_record / put_record) and the built-ins OPEN, PRINT #, LINE INPUT #, EOF, CLOSE, KILL, FIELD / LSET / PUT / GET as RT/Files.v; the operating system's files are assumed to behave as named byte sequences (the model's maps)",
            "harness/src/c18.rs: the sequence generator, the translation of operations into BASIC statements with a marker after each, the parsing of the program's output back into results",
            "modelled, not verified: rusty_basic/src/interpreter/read_input.rs (ReadInputSource eof / input / line_input / skip_while / read_until, the one reader behind the file and the console forms) as RT/ReadInput.v over the bytes not yet consumed; str::trim as is_ws on U+0000..U+00FF; harness: byte streams written to a file and fed to the console, reads observed through PRINT \"<\"; A$; \">\"",
            "NOT modelled: the conversion of an INPUT field to a number, NAME, file names that cannot be created, the bytes of PRINT # beyond whole lines of plain text (PRINT's own layout is C16's)",
        ],
        "assumptions": [
            "a file name is open under at most one handle at a time in the generated sequences",
            "the error for a closed or wrong-mode handle is 'some file error' (codes 50..76), as the property says; observed and recorded: LSET pads the field buffer with NUL bytes, not blanks (the record itself round-trips)",
        ],
    },
    "C09": {
        "coq_targets": ["theories/Lex/LayoutProofs.vo"],
        "harness": ["c09"],
        "disagreement_is_violation": True,
        "axioms": [],
        "trusted_base": COMMON_TB + [
            "Lex/Layout.v: canon as the definition of 'the same program in another layout' (a three-mode machine: code, string literal, comment); it is a specification object, not a model of the parser's tokenizer",
            "harness/src/c09.rs: the text transformations (their own three-mode machine), the comparison of parse trees by Debug text with positions removed and letters folded, verdict classes, run behaviour",
            "NOT modelled: the tokenizer, the grammar, the checker - that they depend on the layout class only is observed on the generated / rejected / repository programs",
        ],
        "assumptions": [
            "unquoted DATA items are data (case sensitive), so programs with DATA are not re-cased; trailing blanks are not added after a comment (they would become comment text)",
            "comments are nodes of the parse tree, so trees are not compared for transformations that add comments",
        ],
    },
    "C13": {
        "coq_targets": ["theories/Names/ResolveProofs.vo"],
        "harness": ["c13"],
        "disagreement_is_violation": True,
        "axioms": [],
        "trusted_base": COMMON_TB + [
            "modelled, not verified: rusty_linter/src/core/type_resolver_impl.rs (letter -> default type table, DEFtype statements in program order), names/{name_info,compacts,names_inner,names_outer}.rs (extended vs compact variables, visibility of globals in subprograms: SHARED and constants only), converter/expr_rules/variable.rs rule order - as Names/Resolve.v",
            "harness/src/c13.rs: program templates that turn 'same variable / different variables / rejected' and 'local / shared global / constant' into printed values, the choice of literals by a small expectation function (a wrong expectation makes the checker reject the program and shows up as a disagreement)",
            "NOT modelled: arrays, user-defined types, function-result names, name clashes between kinds (checked by the checker's own errors only)",
        ],
        "assumptions": [
            "DEFtype statements stand at the top of the program; a single-letter DEFtype is written without a range (the parser rejects X-X)",
        ],
    },
    "C07": {
        "coq_targets": ["theories/Lex/RowColProofs.vo", "theories/PC/Proofs.vo"],
        "harness": ["c07"],
        "disagreement_is_violation": True,
        "axioms": [],
        "trusted_base": COMMON_TB + [
            "Lex/RowCol.v (see C11) and PC/Model.v (see C20) as models of the input layer and of the combinator library",
            "harness/src/c07.rs: the input generators (random bytes, token soups, statement shapes, mutations, prefixes, deep nesting), the panic guard, the wall-clock measurement, the child process for deep nesting",
            "NOT modelled: the grammar (rusty_parser, ~13 kLoC) and the checker (rusty_linter); absence of panics, termination and the time bound are searched, not proved",
        ],
        "assumptions": [
            "nesting depth up to 300 levels (the property allows 'a few hundred')",
            "time bound used by the search: 5 s per input (observed maximum is recorded in the evidence)",
        ],
    },
    "C11": {
        "coq_targets": ["theories/Lex/RowColProofs.vo"],
        "harness": ["c11"],
        "disagreement_is_violation": True,
        "axioms": [],
        "trusted_base": COMMON_TB + [
            "modelled, not verified: rusty_parser/src/input/row_col_view.rs create_row_col_view and string_view.rs position / eof_row_col as Lex/RowCol.v (characters as code points)",
            "harness/src/c11.rs: the builder of faulty programs (it records the row, the column range and the character range of the injected statement and the rows of the call sites while it assembles the text), decoration with blank / comment lines, the three line-ending conventions",
            "NOT modelled: how positions travel from the input layer through parser, checker, generator and VM to the diagnostic (with_pos, Positioned rebuilds, instruction tags, with_err_at, stack trace) - observed end to end by the fault-injection cases only",
        ],
        "assumptions": [
            "the theorem on line endings is stated for non-empty lines (an empty line between two lone CRs cannot be told from CRLF only if followed by LF, which the join never produces; empty lines are covered by the cases)",
        ],
    },
    "C08": {
        "coq_targets": ["theories/VM/Safety.vo"],
        "harness": ["c08"],
        "tables": True,
        "disagreement_is_violation": True,
        "axioms": [],
        "trusted_base": COMMON_TB + [
            "VM/Machine.v as the model of the VM for the core instructions (tied to the real VM by the C01 correspondence) and WF/Verifier.v's certificate check (C15); VM/Safety.v's abstraction of the core instructions is compared with the harness's abstraction of the real list on every case",
            "harness/src/c08.rs: the repertoire generator (27 built-in function forms, 12 statement forms, INPUT / LINE INPUT / READ / VIEW PRINT / PRINT USING, 30 argument shapes), the standard-input generator, classification of panics by message",
            "NOT modelled: built-in functions and statements, procedures, arrays, files, console input - for them the property is searched, not proved",
        ],
        "assumptions": [
            "programs that install an error handler and then fail in the middle of a statement are subject to the known finding C08-error-mid-statement",
            "front-end panics (parser / checker) are C07's; files are C18's",
        ],
    },
    "C03": {
        "coq_targets": ["theories/RT/CtxProofs.vo"],
        "harness": ["c03"],
        "disagreement_is_violation": True,
        "axioms": [],
        "trusted_base": COMMON_TB + [
            "modelled, not verified: rusty_basic/src/interpreter/context.rs (begin_collecting_arguments, stop_collecting_arguments, stop_collecting_arguments_static, pop, drop_arguments_for_array_allocation, push_error_handler_context, do_pop with Vec::remove and the index fix-up, MemoryBlock reference counting) as RT/Ctx.v; variables are abstracted to the identity of their block",
            "harness/src/c03.rs: drives the real Context through its public methods, reads its structure through the hooks verif_states / verif_memory_blocks / verif_static_map, marks each new block with a variable; 23 scenario programs and a generator of call histories with a direct evaluator of the expected output",
            "NOT modelled: argument passing (by reference / by value by argument shape), by-ref write-back queue, function result stashing, SHARED resolution at code generation - decided by the scenarios and histories only",
        ],
        "assumptions": [
            "operation sequences respect the preconditions the generated code guarantees (an argument state on top before stop/drop, a normal state before pop); C15 checks that protocol on every program",
        ],
    },
    "C05": {
        "coq_targets": ["theories/RT/ControlProofs.vo"],
        "harness": ["c05"],
        "disagreement_is_violation": True,
        "axioms": [],
        "trusted_base": COMMON_TB + [
            "modelled, not verified: NearestStatementFinder (find_current / find_next; Rust's slice::binary_search taken by its contract), the GoSub / Return instructions, ErrorHandler::{None,Next,Address} dispatch in Interpreter::interpret, Resume / ResumeNext / ResumeLabel and take_last_error_address - as RT/Control.v",
            "harness/src/c05.rs: extraction of control events from the observer trace (hooks on_instruction / on_error), the generators of control programs, 18 scenario programs whose output is known by construction",
            "NOT modelled: the values that must survive a transfer (loop registers, variables, ERR's value), the handler's context copy; they are checked by the scenarios only",
        ],
        "assumptions": [
            "statement addresses are strictly ascending (checked on every run by check_control)",
        ],
    },
    "C12": {
        "coq_targets": ["theories/Lang/Typing.vo", "theories/Lang/TypingStmt.vo", "theories/Lang/TableRule.vo"],
        "harness": ["c12"],
        "tables": True,
        "disagreement_is_violation": True,
        "axioms": [],
        "trusted_base": COMMON_TB + [
            "Generated/Tables.v cast_binary_op is dumped from the checker's own binary_cast on every run (harness/src/tables.rs); Lang/Ast.etype and Lang/Typing.wt_stmt are hand-written mirrors of the checker's expression typing and of its kind rules for the core statements",
            "Lang/Sem.v + Val/Arith2.v as the meaning of expressions (tied to the VM by the C01 correspondence at value level and program level)",
            "harness/src/c12.rs: ill-typing edits on syntax trees, line edits on procedural programs with the expected error family and row, the renaming map, classification of checker errors into families",
            "NOT modelled: the checker itself (rusty_linter converter and post-linters) - its verdict is an observation compared with wt_program; built-in functions, procedures and arrays are outside the typing theorems",
        ],
        "assumptions": [
            "statements that convert external data (READ, INPUT, PRINT USING) are excluded as the property says",
        ],
    },
    "C14": {
        "coq_targets": ["theories/Lang/ConstProofs.vo"],
        "harness": ["c14"],
        "tables": True,
        "disagreement_is_violation": True,
        "axioms": [],
        "trusted_base": COMMON_TB + [
            "modelled, not verified: rusty_linter/src/core/const_value_resolver.rs (eval_const) and converter/statement/const_rules.rs (new_const: conversion to the constant's suffix type) as Lang/Const.v; run-time evaluation is Lang/Sem.eval over Val/Arith2 (tied to the VM by the C01 correspondence, value level included)",
            "harness/src/c14.rs: generator of constant chains, reading the literal that replaces a use out of the Debug text of the checked program, comparison of PRINT outputs (bare / suffixed / inside SUB / defined in SUB / inlined expression)",
            "NOT modelled: the first evaluation pass (pre_linter/constant_map.rs) separately from the second - both must agree for the program to be accepted with the observed literal",
        ],
        "assumptions": [
            "the folder's Type mismatch answers (AND / OR on a non-INTEGER constant, reference with the wrong suffix) are outside the statement; observed and counted, not judged",
        ],
    },
    "C02": {
        "coq_targets": ["theories/VM/Corr.vo", "theories/Lang/Rewrites.vo", "theories/VM/ValidateProofs.vo"],
        "harness": ["c02"],
        "tables": True,
        "disagreement_is_violation": True,
        "axioms": [],
        "trusted_base": COMMON_TB + [
            "harness/src/c02.rs: the rewrite rules on the generator's syntax trees (for-as-while with typed temporaries, for-step-1, while-as-do-while, do-while-as-while, do-until-as-do-while-not, select-as-if-chain, block-if-as-single-line-if, body-in-if-true), the enumeration of sites, the source printer, the comparison of two runs (output bytes, error code, values of the original's variables; error positions are not compared because rewriting moves lines)",
            "Lang/Sem.v as the meaning of the core language (tied to the implementation by Corr.check_sem on every rewritten program, see C01); the theorems cover four of the seven rules, the others are decided by the runs only",
            "textual rewriting of repository programs is line-based (FOR ... TO ... without STEP; WHILE/WEND); programs using files, ENVIRON or TIMER are excluded",
        ],
        "assumptions": [
            "single-line IF: PRINT statements ending in ';' / ',' or empty are not placed before ELSE (the parser rejects `PRINT 1 ; ELSE`; outside this property)",
            "for-as-while is not compared when the original ends with error 258 (STEP 0)",
        ],
    },
    "C15": {
        "coq_targets": ["theories/WF/VerifierProofs.vo"],
        "harness": ["c15"],
        "disagreement_is_violation": True,
        "axioms": [],
        "trusted_base": COMMON_TB + [
            "harness/src/c15.rs: the abstraction of each real Instruction to control effect + pops/pushes on six stacks (value stack, register stack, var-path stack, context states, by-ref queue, stack trace), the recognition of the call protocol (PushRet a; Jump t = call with return address a) and of procedure regions (labels :sub:/:fun:). The table is validated, not proved: for every executed instruction of every run the real depths (hook on_instruction) must equal base + frames + certificate",
            "the certificate is inferred by an untrusted work-list pass in the harness and checked by the Coq function check_cert; WF/Verifier.v's abstract machine takes both sides of every JumpIfFalse and has no error-transfer edges (ON ERROR GOTO / RESUME NEXT after a failing instruction are outside the theorems)",
            "NOT modelled: the concrete values on the stacks, RETURN <label> (treated as the end of a path), error transfers",
        ],
        "assumptions": [
            "theorems are about the abstract machine; that the real VM's stack movements are those of the abstraction is checked on executed paths only",
            "no run-time error is handled by ON ERROR inside the statement that raised it (see known finding C15-resume-next-into-block)",
        ],
    },
    "C01": {
        "coq_targets": ["theories/VM/Corr.vo", "theories/VM/GenProofs.vo", "theories/VM/ValidateProofs.vo", "theories/Lang/TableRule.vo"],
        "harness": ["c01"],
        "tables": True,
        "disagreement_is_violation": True,
        # two cases per program: "sem ..." (reference semantics vs observed run) and "model ..." (all legs);
        # only a difference from the reference semantics is a failing input
        "failing_input_desc": r"(sem|value) ",
        "axioms": [],
        "trusted_base": COMMON_TB + [
            "Coq.Floats.SpecFloat as the definition of IEEE-754 arithmetic (see C06); decimal text of numbers (Rust Display) is modelled exactly only for whole numbers and multiples of 1/8 (Lang/NumText.v); programs printing other numbers are compared on outcome and variables only",
            "modelled, not verified: Lang/Sem.v (big-step reference semantics written from the language rules), VM/Gen.v (rusty_basic/src/instruction_generator/{expression,statement,main,if_block,loops,select_case,print,label_resolver}.rs for the core fragment), VM/Machine.v (interpreter/main.rs fetch-execute loop and the handlers of the ~35 instructions the fragment uses), Val/Arith2.v (divide, modulo, comparisons, AND/OR/NOT of rusty_variant)",
            "harness/src/c01.rs: program generator, its printer (source text with positions) and the Coq literal printer for the AST, the implementation's instruction list, statement addresses, outcome, stdout and final variables (hook Context::verif_*); the list of implicitly declared variables is taken from the implementation's own DIM prefix",
            "DATA/READ are modelled (Sem.exec_main: the DATA statements of the main program first, then the implicit declarations, then the rest; call instructions of the two built-ins in VM/Machine.v). NOT modelled: sub-programs, arrays, user-defined types, string functions inside core programs, ON ERROR; the parser and linter are exercised (programs go through them) but only their output is compared, through the instruction list",
        ],
        "assumptions": [
            "theorems cover all expressions, straight-line programs, and every instruction list accepted by the proved validator VM/Validate.check_program (IF/SELECT/FOR/WHILE/DO nested to any depth, runs of any length); that the real generator's output is accepted is decided per generated program by evaluating the validator in Coq on the real instruction list (case 'valid'), not by a universal theorem about the generator",
            "expressions are well-typed (the linter's job, C12)",
        ],
    },
    "C19": {
        "coq_targets": ["theories/Val/F64Codec.vo"],
        "harness": ["c19"],
        "disagreement_is_violation": True,
        "axioms": [],
        "trusted_base": COMMON_TB + [
            "Flocq 'IEEE754.Bits' as the definition of the IEEE-754 binary64 interchange encoding; its theorems depend on the standard-library axioms ClassicalDedekindReals.sig_not_dec, ClassicalDedekindReals.sig_forall_dec, FunctionalExtensionality.functional_extensionality_dep, Classical_Prop.classic (C19_cvd_mkd, C19_mkd_cvd only; all other C19 theorems are closed under the global context)",
            "identification of a Rust f64 with the Flocq binary64 of the same bit pattern (f64::to_bits / from_bits)",
            "modelled, not verified: rusty_bit_vec/src/lib.rs (From<i32>, bits_to_i32, BitAnd, BitOr), rusty_variant/src/bits.rs (qb_and, qb_or, i32_to_bytes, bytes_to_i32, f64_to_bytes, bytes_to_f64, msb_bits_to_byte, lsb_bytes_to_msb_bits), Variant::unary_not on VInteger, PeekByte/PokeByte for VInteger",
        ],
        "assumptions": [
            "model = code is checked exhaustively for all 65536 INTEGERs (unary functions, both byte conversions, PEEK of both bytes through running programs) and on the generated AND/OR pairs, POKE triples and doubles only",
            "INTEGER values reaching these functions are in -32768..32767 (C06 covers how values get there)",
        ],
    },
    "C20": {
        "coq_targets": ["theories/PC/Proofs.vo"],
        "harness": ["c20"],
        "disagreement_is_violation": True,
        "axioms": [],
        "trusted_base": COMMON_TB + [
            "modelled, not verified: rusty_pc/src/{top_level,supplier,filter,filter_map,and,or,many,peek,to_option,or_default,surround,delimited,seq,and_then,and_then_err,map,map_soft_err,map_fatal_err,to_fatal,boxed,lazy,map_decorator}.rs as the deep embedding PC/Model.v (23 constructors); NOT modelled: the context-passing combinators (ctx_parser, iif_ctx, map_ctx, no_context, many_ctx, then_with_in_context, flatten), text/strings.rs (defined from read/filter/many)",
            "the harness interprets the same pexp terms into real boxed rusty_pc parsers over a 3-letter test input; a transparent probe parser around every sub-parser records fatal errors for the implementation-side check",
        ],
        "assumptions": [
            "parser expressions whose repetition element can succeed without consuming input are excluded (the implementation loops forever on them and the model answers OutOfFuel); the syntactic productivity test is in harness/src/c20.rs",
            "model = code is checked on the generated expressions x inputs only (bounded-exhaustive for depth <= 2, sampled beyond)",
        ],
    },
    "C04": {
        "coq_targets": ["theories/RT/ArrayProofs.vo"],
        "harness": ["c04"],
        "disagreement_is_violation": True,
        "axioms": [],
        "trusted_base": COMMON_TB + [
            "modelled, not verified: rusty_variant/src/array_value.rs (VArray::new, abs_index, get_element(_mut), get_dimension_bounds, dimensions_to_array_length), fix_length in rusty_basic/src/interpreter/string_utils.rs, record field lookup (UserDefinedTypeValue as an ordered list with case-folded keys)",
            "program-level routes (DIM, element/field assignment, by-reference parameters, LBOUND/UBOUND built-ins, FixLength emission) are not modelled: they are checked by generated programs against an independent reference in the harness (implementation-side evaluation), not by a theorem",
        ],
        "assumptions": [
            "element count of an array < 2^31 (Rust i32 index arithmetic is exact); allocation of more elements is out of reach",
            "strings are byte strings (ASCII)",
        ],
    },
    "C17": {
        "coq_targets": ["theories/RT/StringsProofs.vo"],
        "harness": ["c17"],
        "disagreement_is_violation": True,
        "axioms": [],
        "trusted_base": COMMON_TB + [
            "modelled, not verified: rusty_basic/src/interpreter/built_ins/{left,right,mid_fn,instr,len,ucase,lcase,ltrim,rtrim,space,string_fn,str_fn,val}.rs and to_non_negative_int/to_positive_int of variant_casts.rs, on byte strings; VAL is modelled on its integer states only (strings with a fraction part are outside the model), f64 accumulation of digits is taken as exact below 2^53",
            "results are observed through PRINT in whole programs (parser, linter, generator, VM and PRINT are on the path of every observation)",
        ],
        "assumptions": ["strings are ASCII byte strings; CHR$/non-ASCII strings are outside this property's model"],
    },
    "C10": {
        "coq_targets": ["theories/Expr/Proofs.vo", "theories/Expr/Literals.vo"],
        "harness": ["c10"],
        "tables": True,
        "disagreement_is_violation": True,
        "axioms": [],
        "trusted_base": COMMON_TB + [
            "translator for finite functions: harness/src/tables.rs evaluates Operator::precedence, ExpressionTrait::should_flip_binary (13x13) and should_flip_unary (2x13) of the current /repo tree on their whole domains and prints Generated/Tables.v; the theorems are re-proved over the regenerated tables on every run",
            "modelled, not verified: binary_expr / flip_binary / apply_unary_priority_order of rusty_parser/src/expr/types.rs (positions dropped), the right-recursive chain grammar of binary_expression.rs / unary_expression.rs, process_dec / process_hex / process_oct, BitVec::convert_to_int_or_long_expr, Expression::unary_minus; str::parse::<u32>/<f64> are Rust std",
        ],
        "assumptions": ["the expression grammar feeds the repair functions exactly the right-recursive chain structure of Expr/Tree.v (checked by correspondence on every generated expression)"],
    },
    "C16": {
        "coq_targets": ["theories/RT/PrinterProofs.vo", "theories/RT/UsingProofs.vo"],
        "harness": ["c16"],
        "disagreement_is_violation": True,
        "axioms": [],
        "trusted_base": COMMON_TB + [
            "modelled, not verified: WritePrinter (write_printer.rs), PrintState incl. PRINT USING scanners (print.rs), the PRINT instruction sequence (instruction_generator/print.rs) and print_comma/print_value_from_a/print_end (interpreter/main.rs); the decimal text of a number is taken from Rust Display (only the sign/blank framing is modelled); PRINT USING of floating point values is outside the model",
            "files are observed by reading them back from the scratch directory of the run (OS file semantics assumed)",
        ],
        "assumptions": ["the text of a number contains no CR/LF (Rust Display)"],
    },
    "C06": {
        "coq_targets": ["theories/Val/VariantProofs.vo"],
        "harness": ["c06"],
        "axioms": [],
        "trusted_base": COMMON_TB + [
            "Coq.Floats.SpecFloat (binary_normalize, SFadd, SFsub, SFmul) as the definition of IEEE-754 binary32/binary64 arithmetic with round-to-nearest-even; Rust f32/f64 arithmetic, `as` conversions and round() are identified with it through IEEE bit patterns (correspondence)",
            "modelled, not verified: rusty_linter/src/core/qb_casting.rs (QBNumberCast, CastVariant::cast), Variant::plus/minus/multiply/negate of rusty_variant/src/variant.rs, the rule 'Cast is emitted iff the static types differ' of the instruction generator (assignment, by-value parameters, FOR bounds and step)",
            "NOT proved: finiteness of whole number -> SINGLE/DOUBLE conversions (validated by correspondence); division, MOD, comparisons, AND/OR are outside the theorems",
        ],
        "assumptions": [
            "values reaching a store have their static type - false for expressions containing '/' (known finding C06-division-retag)",
        ],
    },
}
